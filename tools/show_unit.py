#!/usr/bin/env python3
"""show_unit.py <unit-id> [--variant include|development]: print the generated C of one unit (authoring aid)."""
import sys, os, tempfile
HERE = os.path.dirname(os.path.dirname(os.path.abspath(__file__)))
sys.path.insert(0, HERE); sys.path.insert(0, os.path.join(HERE, 'tools'))
import check, unit as U
from cxxast import AST, Unsupported, dump_ast
uid = sys.argv[1]; variant = sys.argv[3] if len(sys.argv) > 3 else 'include'
import importlib
allu = check.load_units()
for m in check.SPEC_MODULES:
    try:
        allu += getattr(importlib.import_module(m), 'DRAFTS', [])
    except ModuleNotFoundError:
        pass
u = [x for x in allu if x['id'] == uid][0]
cache = '/tmp/w/astcache'; os.makedirs(cache, exist_ok=True)
key = check.ast_key(u['witness'], variant, check.witness_defines(u))
path = os.path.join(cache, key + '.json')
src = os.path.join(HERE, 'witness', u['witness'] + '.cpp')
hdr = os.path.join(check.REPO, 'include/ffsm2/machine.hpp')
if not os.path.exists(path) or os.path.getmtime(path) < max(os.path.getmtime(src), os.path.getmtime(hdr)):
    v = check.VARIANTS[variant]
    dump_ast(src, path, v['inc'], ['FFSM2_HEADER=' + v['header']] + check.witness_defines(u))
ast = AST(path)
b = U.UnitBuild(ast, u)
try:
    print(b.build())
except Unsupported as e:
    print('UNSUPPORTED:', e)
    if '-v' in sys.argv: raise
print('/* notes:', b.notes, '*/')
