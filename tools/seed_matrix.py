#!/usr/bin/env python3
"""Run every seeded change against the check of the property it breaks; write seeded/<id>/meta.json and seeded/MATRIX.md.
Each change is applied to /repo with `git apply`, checked, and undone with `git checkout -- .` straight afterwards."""
import json, os, re, subprocess, sys, time
HERE = os.path.dirname(os.path.dirname(os.path.abspath(__file__)))
NEEDS = {
 'C01_1': 'two guard rounds in one processing step: round 1 accepted with a follow-up request from a guard, round 2 cancelled; then the staged destination is wiped and an unrequested state is entered while activeStateId() is invalid',
 'C05_1': '>= 3 states, react() while the active state lies in the right half of a right sub-tree of the state-list split: postReact goes to an inactive state',
 'C05_2': 'react(): the active state\'s react callback receives a copy of the event, not the caller\'s object (only address / mutable data reveal it)',
 'C07_1': 'an entry guard redirects during initial activation: guards of the next round see pending and current transitions swapped',
 'C07_2': 'a guard re-issues changeWith() for the destination just accepted: the request (and its payload) is dropped as a duplicate',
 'C10_1': 'plan with >= 3 tasks, remove a task that is not the first: tasks in between drop out of iteration and their slots leak',
 'C10_2': 'clear() (or plan failure) on a plan with >= 2 tasks: only the first task is freed, capacity leaks',
 'C12_1': 'machine with 128..255 states and an active state id >= 128: top bit of the id is lost in save()/load()',
 'C12_2': 'second save() into the same SerialBuffer: bits of the earlier save survive (buffer no longer canonical)',
 'C13_1': 'field whose value is 0 or whose last chunk is 0: the write cursor advances by less than the field width',
 'C13_2': 'bitWidth(v) for v in 128..255 returns 7: 129..255 states get one bit too few',
 'C14_1': '>= 4 states, self-transition (reenter) of a state in the left half of a split but not first in it: reenter() runs on another state',
 'C15_1': 'state with >= 2 injections is exited: injection exit() callbacks run in forward instead of reverse order',
 'C15_2': 'state and an injection both observe postUpdate(): the state\'s own postUpdate runs after its injections',
 'C16_1': 'logger attached and postReact() of a user state does something observable: the method record is emitted after the user code',
 'C16_2': 'verbose logging, head-less (PeerRoot) machine with a failing plan: the apex logs planSucceeded for a planFailed delivery',
 'C20_1': 'BitArrayT capacity multiple of 8: set() clears the whole last byte',
 'C20_2': 'DynamicArrayT not full: iteration / += other visit stale slots past count()',
 'C02_1': 'a guard vetoes in a round after a redirect was accepted: the staged destination falls back to the origin of the vetoed request instead of the last accepted destination',
 'C02_2': 'state with injections whose injected entryGuard() cancels: the veto is not reported, the cancelled transition is applied',
 'C03_1': 'two guard rounds in one step with a cancel in the first: _cancelled stays set, later rounds are reported vetoed',
 'C03_2': 'same reorder as C02_2 (cancelledBefore sampled after the injected guards)',
 'C04_1': 'guards keep redirecting until SUBSTITUTION_LIMIT: processRequest() loops again instead of returning with the left-over request cleared',
 'C04_2': 'guard vetoes and redirects in the same round: staged destination keeps the vetoed value',
 'C06_1': 'initial activation with an entry guard: GuardControl sees pending/current transitions swapped',
 'C06_2': 'changeWith() from a state callback: the request origin is not the calling state',
 'C08_1': 'non-cyclic plan task whose origin succeeded: the success report of the origin is not consumed',
 'C08_2': 'plan ends while the last state (STATE_COUNT-1) has a pending report: it survives Plan::clear()',
 'C09_1': 'state reports both success and failure in one step: success wins over failure',
 'C09_2': 'void-payload machine: PlanData::clear() leaves planExists set',
 'C11_1': 'same as C02_1 seen through the transition history',
 'C11_2': 'activation where an entry guard redirected: previousTransition records the pending instead of the applied transition',
 'C17_1': 'machine copied while a request with origin/payload is outstanding: the copy keeps only the destination',
 'C18_1': 'TaskListT clear() after the list has grown: stale _last makes a later emplace() corrupt the free list / write out of range',
 'C18_2': '>= 128 states: SerialBuffer one bit (byte) short of what save() writes',
 'C18_3': 'TaskListT emplace() of the last free slot writes _items[CAPACITY]',
 'C01_2': 'replayTransition() on an active replica: the destination is entered without the old state ever being exited (deepEnter instead of deepChangeToRequested)',
 'C01_3': 'transition between two different states observed from inside enter(): the registry still names the state that has just exited',
 'C01_4': 'a callback that uses the type-based control.isActive<T>(): answers for the calling state instead of T',
 'C05_3': 'postReact of the active state (machine with >= 2 sub-states) receives a copy of the event',
 'C05_4': 'a state that defines preReact/postReact itself: preReact runs twice, postReact never',
 'C05_5': 'a state that defines preUpdate/postUpdate itself: preUpdate runs twice, postUpdate never',
 'C07_3': 'guard-redirected activation: guards see pending and current transitions swapped (constructor arguments of the GuardControl)',
 'C07_4': "activation: redirect accepted, second redirect vetoed: enter() sees the vetoed request's payload as current transition",
 'C07_5': 'guard-redirected activation with transition history: previousTransition() records the pending, not the applied transition (same patch as C11_2)',
 'C10_3': 'task with a successor removed / fired, its slot reused as the new last task: stale forward link, iteration runs into a cycle',
 'C12_3': 'serial buffers of >= 2 bytes (128..255 states) that share a byte: operator != answers "all bytes differ"',
 'C12_4': 'second save() into a used buffer: StreamBufferT::clear() clears a copy (fill() takes its array by value), images are OR-ed',
 'C12_5': '129..255 states, saver in a state >= 128: bitWidth gives 7 bits (same patch as C13_2)',
 'C13_3': 'read<W>() of a field that starts mid-byte and ends inside the same byte: bits of the next field leak into the result',
 'C13_4': 'bitWidth(v) for v in 16..31 returns 4',
 'C16_3': 'non-verbose logging, root head that defines only one of planSucceeded / planFailed, failing plan: record decided by the wrong member',
 'C16_4': 'control.succeed(id) / succeed<T>() for another state: the task-status record names the caller',
 'C17_2': 'plans with a payload type, task appended without payload, machine constructed over non-zero memory: task reports a payload',
 'C17_3': 'states with data members: the copy constructor of the machine copies only the core, the copy gets fresh state objects',
 'C20_3': 'BitArrayT::set() with CAPACITY % 8 in 1..3 / 5..7: padding bits left set / top members left unset',
 'C20_4': 'BitArrayT::empty() with CAPACITY a multiple of 8 and all members in the last 8 indices: reports empty',
 'C20_5': 'DynamicArrayT += other on a non-empty array: elements written over the old ones',
 'C02_3': "a guard requests and then vetoes in the same round (or an exit guard requests and an entry guard vetoes): cancelPendingTransition() wipes the guard's own request",
 'C02_4': 'machine.changeTo<T>() (type-based, deferred): transitions immediately',
 'C02_5': 'request accepted, its guard requests another, that one is vetoed: fall-back to the active state (reenter) instead of the accepted destination',
 'C03_3': 'later-round veto of a request whose origin is not the last accepted destination (same patch family as C02_1)',
 'C03_4': 'injected exitGuard() cancels: deepExitGuard() reports "not cancelled", the transition is applied',
 'C03_5': 'activation: redirect accepted, second redirect vetoed: falls back to the origin of the vetoed request',
 'C04_3': 'guard vetoes and redirects in round >= 2 after an accepted request: vetoed state stays staged',
 'C04_4': 'Config::SubstitutionLimitN<2>::TaskCapacityN<8>: the capacity lands in the substitution-limit slot',
 'C04_5': 'machine-level (bare) request accepted, later round vetoed: the fall-back is filtered as a duplicate, vetoed state entered',
 'C06_3': 'query(): control.isActive<T>() on the const control answers for the calling state',
 'C08_3': 'TaskCapacityN<N> below the state count, reporting state id >= N: its report bits survive the end of a plan',
 'C08_4': 'head task fires with a successor, plan empties, new plan reuses the slot as last task: stale link, phantom task (same patch as C10_3)',
 'C08_5': 'payload machines: fired task consumes the report of its destination instead of its origin',
 'C09_3': 'same patch as C08_3 seen through the plan outcome callbacks',
 'C09_4': 'manual activation, exit() of a state appends a task: planExists set after PlanData::clear(), callbacks after re-activation without a plan',
 'C11_3': 'payload request from a callback recorded with origin invalid in previousTransition() (same patch as C06_2)',
 'C11_4': "update() without a request keeps the previous step's previousTransition()",
 'C15_3': 'state with >= 2 injections re-entered: injections 2..k get enter() instead of reenter()',
 'C15_4': 'postReact with >= 1 injection: injections run before the state instead of after',
 'C18_4': 'TaskCapacityN above the state count: PlanT::clear() clears bits beyond the bit arrays (same patch as C08_3)',
 'C18_5': 'Iterator::remove() of the last of >= 2 tasks, then append: writes taskLinks[255]',
 'C01_5': "manual activation, initial state's guard redirects, the redirect is vetoed, nothing accepted before: INVALID staged, a state entered while activeStateId() is invalid",
 'C01_6': 'copy of an active machine: the core copy constructor drops the registry, the copy reports no active state',
 'C01_7': 'copy of an automatic machine: the copy constructor activates again (root enter() twice, state 0 entered, copied state never exited)',
 'C02_6': "request made from enter()/exit()/reenter() through the machine's own changeTo(): wiped at the end of the step",
 'C02_7': 'a step that needs exactly LIMIT rounds (LIMIT = 1: any request): the substitution loop starts at 1, the request is not processed',
 'C02_8': 'state with >= 2 injections re-entered: first injection gets enter() instead of reenter()',
 'C05_6': 'react() of the active state receives a copy of the event (machine with >= 2 states)',
 'C05_7': 'a state (or head) that defines query() itself: never called',
 'C07_6': 'plan task with payload fires, its slot is recycled by a payload-free task: that task shows the stale payload flag',
 'C07_7': 'plan task payload larger than its alignment: task storage sized with alignof(Payload)',
 'C08_6': 'plan of >= 3 tasks, Iterator::remove() of a later task: the tasks in between vanish (same patch as C10_1)',
 'C08_7': 'success report of a state survives its exit (clearTaskStatus clears failures twice): a later task of that origin fires without a new report',
 'C10_4': 'const plan view with TaskCapacityN above the state count: CPlan iteration / emptiness bounded by the state count',
 'C10_5': 'append: back link of every non-first task points to itself; removal of a non-first task corrupts the plan',
 'C10_6': 'payload-free machines: PlanData::clear() keeps the task links; load() into a loader with >= 2 tasks leaves a phantom task',
 'C11_5': "react() without a request keeps the previous step's previousTransition()",
 'C11_6': "machine copied mid-history: the copy's previousTransition() is the source's outstanding request",
 'C11_7': 'replayTransition() records an empty previousTransition() on the replica (relay chains stall)',
 'C16_5': 'two cancellations in one guard round: only one cancellation record',
 'C16_6': 'control.fail(id) for another state: the task-status record names the caller',
 'C16_7': 'cancellation with no logger attached (never attached or detached): null logger dereferenced',
 'C18_6': 'BitArrayT::set() with CAPACITY a multiple of 8 writes one byte past the array (8, 16, ... states with plans)',
 'C18_7': 'StreamBufferT of BIT_CAPACITY % 8 == 1 (128..255 states) is one byte short',
 'C18_8': 'contain() for 249..255 bits wraps to 0 units: the task bit arrays have no storage',
 'C03_6': 'guard vetoes and redirects after an accepted request: the fall-back is skipped, the vetoed state stays staged (limit reached / replacement filtered as duplicate)',
 'C03_7': 'activation: redirect accepted, second redirect vetoed: falls back to state 0 instead of the accepted redirect',
 'C04_6': 'SubstitutionLimitN<255>: loop counter 1..LIMIT in an 8-bit type never terminates',
 'C04_7': 'activation: first redirect vetoed with nothing accepted: INVALID staged, no active state (same patch as C01_5)',
 'C04_8': 'Config::SubstitutionLimitN<2>::TaskCapacityN<9>: arguments of the TaskCapacityN alias swapped',
 'C06_4': 'activation guards: GuardControl built with pending / current swapped (same patch as C07_3)',
 'C06_5': 'value context: the const control holds a copy of the core; query() sees a copy of the context',
 'C09_5': 'no plan yet, a state reports failure and leaves, a plan is created: the stale region status delivers planFailed() in a later cycle',
 'C09_6': 'planSucceeded() of a head that queues a task: the plan is cleared before instead of after the callback',
 'C13_5': 'read<W>() of a field inside one byte that starts mid-byte: mask too wide by the start offset',
 'C13_6': 'write stream opened at a non-zero cursor on a used buffer: buffer not cleared',
 'C13_7': 'bitWidth(16..31) returns 4',
 'C14_2': 'first redirect of an activation vetoed: INVALID staged, dispatch reaches the last declared state (same family as C01_5)',
 'C15_5': 'state with >= 2 injections: entry guards of injections 2..k never consulted',
 'C17_4': 'machine copied while the plan holds a task with payload: TaskT copy constructor drops payloadSet',
 'C17_5': 'machine copied after an earlier task was removed: TaskListT copy loops to _count instead of _last',
 'C20_6': 'DynamicArrayT::emplace(const&...) does not advance the count',
 'C20_7': 'contain() wraps for 249..255 bits: UNIT_COUNT 0 (same patch as C18_8)',
 'C02_9': 'guard re-requests the destination of a machine-level (bare) accepted request: the duplicate is not consumed and fires a spurious reenter() in a later idle step',
 'C02_10': 'request with a state origin accepted, later round vetoed: falls back to the origin of the accepted transition',
 'C05_8': 'react(): C_::deepReact takes the event by value, root and active state receive a copy',
 'C05_9': 'a state that defines preUpdate / postUpdate itself: preUpdate twice, postUpdate never (variant of C05_5)',
 'C08_8': 'payload-free updatePlan: loop and firing conditions swapped, a later task fires past an inactive origin that has an external success report',
 'C08_9': 'two tasks of the succeeded origin in one step: Iterator::operator++ re-reads the link of the removed task, the second task never fires (submitted for C02)',
 'C10_7': 'list filled once, a slot other than the highest freed, refill: TaskListT::emplace grows by _vacantHead instead of _last and writes past _items',
 'C11_8': 'replica with an origin in its history replays: replayTransition() keeps the stale origin',
 'C11_9': 'accepted transition with an origin, guard re-requests the same destination: dropped as duplicate (same patch as C07_2)',
 'C16_8': 'state with an injection that defines preReact: the method record is emitted after the injected callback',
 'C16_9': 'verbose logging, PeerRoot: query() of the apex is recorded as postReact',
 'C17_6': 'payload machines: transitions built by the (destination) / (origin, destination) constructors leave payloadSet uninitialised',
 'C17_7': 'machine copied before any task was appended: recorded success / failure reports are not copied',
 'C18_9': 'full list, one task removed, refill: TaskListT::remove forgets _vacantTail, the next emplace writes _items[255]',
 'C12_6': 'second save() into a SerialBuffer that was already used: the write stream constructor no longer clears the buffer, old bits are OR-ed into the new image (non-canonical, wrong state loaded)',
 'C14_3': 'N >= 4 states, reenter of state k strictly inside a left half of the split (N=4, k=1): wideReenter tests prong == L_PRONG and dispatches to the right half',
 'C15_6': 'state with >= 2 injections and an observable postReact(): the variadic A_::widePostReact runs I1..Ik instead of Ik..I1',
 'C20_8': 'BitArrayT with CAPACITY % 8 != 0 and operator&=: the partial last byte is not and-ed',
 'C04_9': 'limit reached while guards veto and redirect in the same round: the round counter only advances on accepted rounds, processTransitions never returns',
 'C13_8': 'capacities 249..255 bits: contain() computes x + to - 1 in uint8_t, BYTE_COUNT wraps to 0 (same patch as C18_8 / C20_7)',
 'C17_8': 'payload plans, machine copied while a payload-carrying task is outstanding: user-provided TaskT copy constructor drops payloadSet, the copy issues changeTo instead of changeWith',
 'C10_8': 'clear() of a non-empty plan: clearTasks() stops at _bounds.last, the last task slot leaks; capacity shrinks by one per clear()',
 'C01_8': "activation: the initial state's entry guard redirects and the redirect is vetoed with nothing accepted before: the fall-back to state 0 is dropped, a state is entered while activeStateId() is invalid (same patch as C14_2)",
 'C02_11': 'a request made from enter()/exit()/reenter() during the transition (through the machine in the context): processRequest() loops and applies it in the same call (same patch as C04_1)',
 'C18_10': 'state count / capacity an exact multiple of 8 and BitArrayT::set() (success branch of updatePlan): unguarded _storage[CAPACITY / 8] &= mask reads and writes one byte past the array',
 'C16_10': 'one state calls changeTo() twice for the same destination before processing: the second call is dropped as a duplicate and emits no transition record',
 'C08_10': 'payload config, plan task without payload (plan.change<>()): the Origin scope moved into the payload branch, the request carries the invalid id as requester',
 'C03_8': "root with a head, a guard redirects during activation and the head's entryGuard vetoes the redirect: C_::deepEntryGuard discards the head's result, the veto is masked by cancelledBefore in the sub-state",
 'C05_10': "plans enabled and the root's own update() reports a task status: C_::deepUpdate skips the active state's update() that cycle (preUpdate / postUpdate still run)",
 'C11_10': "two or more rounds in one step, earlier accepted, later vetoed, origin of the vetoed request differs from the accepted destination: fall-back to pendingTransition.origin, previousTransition() disagrees with the active state",
 'C14_4': 'odd-sized (sub-)list of states, active state first in a right half (N=3: B; N=5: C, D): widePreUpdate picks the half by (size + 1) / 2, another state receives preUpdate',
}
def sh(cmd, **kw):
    return subprocess.run(cmd, shell=True, stdout=subprocess.PIPE, stderr=subprocess.STDOUT, text=True, **kw)
only = sys.argv[1:]
vcommit = sh('git -C %s rev-parse --short HEAD' % HERE).stdout.strip()
rcommit = sh('git -C /repo rev-parse --short HEAD').stdout.strip()
for d in (only or sorted(os.listdir(os.path.join(HERE, 'seeded')))):
    sd = os.path.join(HERE, 'seeded', d)
    if not os.path.isdir(sd):
        continue
    prop = d.split('_')[0]
    if sh('git -C /repo diff --quiet').returncode != 0:
        print('/repo dirty, abort'); sys.exit(9)
    a = sh('git -C /repo apply %s/patch.diff' % sd)
    if a.returncode != 0:
        print((d, prop, 'patch does not apply')); continue
    try:
        r = sh('cd %s && python3 check.py %s --tier quick' % (HERE, prop))
    finally:
        sh('git -C /repo checkout -- .')
    out = r.stdout
    viol = [l for l in out.splitlines() if l.startswith('VIOLATION')]
    failed = sorted(set(re.findall(r'FAILED OBLIGATION unit=(\S+) copy=\S+ (\S+):', out)))
    detected = bool(viol)
    replayed = bool(viol) and 'no-failing-input-found' not in viol[0]
    conf = open(os.path.join(sd, 'confirm.log')).read().strip().splitlines()[-1] if os.path.exists(os.path.join(sd, 'confirm.log')) else ''
    meta = {'property': prop, 'breaks': 'see notes.md (written by the sub-agent that seeded the change)', 'needs_to_manifest': NEEDS.get(d, ''),
            'confirmed': conf, 'what_was_run': 'tools/confirm_seed.sh (suite with the change, demo with / without the change in a scratch worktree); tools/seed_matrix.py (git apply, check.py %s --tier quick, git checkout -- .)' % prop,
            'run_at': {'verif_commit': vcommit, 'repo_commit': rcommit, 'when': time.strftime('%Y-%m-%d %H:%M UTC', time.gmtime())},
            'check_result': {'exit': r.returncode, 'violation_line': viol[0] if viol else None, 'failed_obligations': ['%s %s' % f for f in failed][:12], 'replayed_on_real_code': replayed}}
    json.dump(meta, open(os.path.join(sd, 'meta.json'), 'w'), indent=1)
    print((d, prop, 'DETECTED' if detected else ('exit %s' % r.returncode), 'native replay' if replayed else ('no-failing-input-found' if detected else '')))
    sys.stdout.flush()
# MATRIX.md: always rebuilt from every meta.json (each row names the /verif commit whose check produced it)
rows = []
for d in sorted(os.listdir(os.path.join(HERE, 'seeded'))):
    mp = os.path.join(HERE, 'seeded', d, 'meta.json')
    if not os.path.exists(mp):
        if os.path.isdir(os.path.join(HERE, 'seeded', d)):
            rows.append((d, d.split('_')[0], 'not run yet', '', '', ''))
        continue
    m = json.load(open(mp)); c = m['check_result']
    det = bool(c.get('violation_line'))
    rows.append((d, m['property'], 'DETECTED' if det else 'exit %s' % c.get('exit'), ('native replay' if c.get('replayed_on_real_code') else 'no-failing-input-found') if det else '',
                 '; '.join(c.get('failed_obligations', [])[:2]), (m.get('run_at') or {}).get('verif_commit', 'earlier')))
with open(os.path.join(HERE, 'seeded', 'MATRIX.md'), 'w') as f:
    f.write('| seeded change | property | quick check | replay | failed obligations (first 2) | /verif commit of the run |\n|---|---|---|---|---|---|\n')
    for r in rows:
        f.write('| %s | %s | %s | %s | %s | %s |\n' % r)
    n = sum(1 for r in rows if r[2] == 'DETECTED')
    f.write('\n%d of %d detected; %d with a native reproduction.\n' % (n, len(rows), sum(1 for r in rows if r[3] == 'native replay')))
