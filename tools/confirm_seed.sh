#!/bin/bash
# confirm_seed.sh <seed-dir> : confirm a seeded change independently in a scratch worktree of /repo:
#  (1) patch applies, library compiles, the unedited suite passes with it; (2) demo fails with it; (3) demo passes without it.
# Writes <seed-dir>/confirm.log and prints one summary line.  The scratch worktree is removed afterwards.
set -u
S=$(readlink -f "$1"); name=$(basename "$S")
BASE=${2:-HEAD}
WT=/tmp/seedconf_$name
cd /repo && git worktree remove --force $WT >/dev/null 2>&1
git worktree add -q --detach $WT $BASE || { echo "$name: worktree failed"; exit 2; }
log=$S/confirm.log; : > $log
cd $WT
echo "base commit: $(git rev-parse --short HEAD)" >> $log
# demo on the unmodified tree
g++ -std=c++11 -I$WT/include -o $WT/demo_clean $S/demo.cpp >> $log 2>&1; ./demo_clean >> $log 2>&1; rc_clean=$?
if ! git apply $S/patch.diff >> $log 2>&1; then echo "$name: PATCH-DOES-NOT-APPLY on $BASE"; cd /repo; git worktree remove --force $WT; exit 3; fi
cmake -G Ninja -B _build -S . >/dev/null 2>&1; cmake --build _build > build.log 2>&1; tail -4 build.log >> $log
suite=FAIL; grep -q 'Status: SUCCESS' build.log && suite=PASS
g++ -std=c++11 -I$WT/include -o $WT/demo_mut $S/demo.cpp >> $log 2>&1; ./demo_mut >> $log 2>&1; rc_mut=$?
echo "$name: base=$(git rev-parse --short HEAD) suite_with_change=$suite demo_clean_rc=$rc_clean demo_with_change_rc=$rc_mut" | tee -a $log
cd /repo; git worktree remove --force $WT
