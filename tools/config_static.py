#!/usr/bin/env python3
"""Static obligations about the configuration aliases (not function contracts: the values are computed by template
aliases at compile time, so they are evaluated by the real compilers on /repo's current header, static/config_probe.cpp):
every Config alias changes exactly its own slot, in any order, and the machine is built with those values.  The machine
contracts are parametric in SUBSTITUTION_LIMIT / TASK_CAPACITY; this is what ties those symbols to what the user wrote.
Returns a list of obligations {name, status, detail, label}."""
import os, re, subprocess

HERE = os.path.dirname(os.path.dirname(os.path.abspath(__file__)))
REPO = os.environ.get('FFSM2_REPO', '/repo')


def obligations(work):
    out = []
    for cxx in ('g++', 'clang++'):
        exe = os.path.join(work, 'config_' + cxx.replace('+', 'p'))
        p = subprocess.run([cxx, '-std=c++11', '-I', os.path.join(REPO, 'include'), '-DFFSM2_HEADER=<ffsm2/machine.hpp>', os.path.join(HERE, 'static', 'config_probe.cpp'), '-o', exe],
                           stdout=subprocess.PIPE, stderr=subprocess.PIPE)
        if p.returncode != 0:
            out.append({'name': 'config.%s.build' % cxx, 'status': 'UNDECIDED', 'detail': p.stderr.decode()[-800:], 'label': None})
            continue
        r = subprocess.run([exe], stdout=subprocess.PIPE, stderr=subprocess.PIPE)
        for ln in r.stdout.decode().splitlines():
            m = re.match(r'^(config|machine) (\S+) .* ok=(\d)$', ln)
            if m:
                out.append({'name': 'config.%s.%s.%s' % (cxx, m.group(1), m.group(2)), 'status': 'SUCCESS' if m.group(3) == '1' else 'FAILURE', 'detail': ln, 'label': None})
    return out
