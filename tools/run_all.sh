#!/bin/bash
# run every claimed property's quick (or $1) check, validate the evidence files
cd /verif; tier=${1:-quick}; rc_all=0
for P in $(python3 -c "import json; print(' '.join(c['property_id'] for c in json.load(open('MANIFEST.json'))['checks']))"); do
  /usr/bin/time -f "%es" python3 check.py $P --tier $tier 2>&1 | grep -E 'VIOLATION|UNDECIDED|KNOWN-FINDING|tier=|^[0-9.]+s$' | cut -c1-160
done
python3-vt - <<'PY'
import json, jsonschema, glob
sch = json.load(open('/root/.vp/EVIDENCE.schema.json'))
for f in sorted(glob.glob('/verif/evidence/*.json')):
    jsonschema.validate(json.load(open(f)), sch)
print('evidence files valid:', len(glob.glob('/verif/evidence/*.json')))
PY
