#!/usr/bin/env python3
"""Static / layout obligations of C18 that are not function contracts (see DESIGN.md, C18):
  * alignment of the payload storage and of TaskStatus, taken from the REAL compilers' layout (g++ and clang++);
  * absence of heap allocation: no undefined allocation symbol in object files instantiating the whole API.
Returns a list of obligations {name, label, status, detail}."""
import os, re, subprocess, tempfile

HERE = os.path.dirname(os.path.dirname(os.path.abspath(__file__)))
REPO = os.environ.get('FFSM2_REPO', '/repo')


def run(cmd, **kw):
    return subprocess.run(cmd, stdout=subprocess.PIPE, stderr=subprocess.PIPE, **kw)


def obligations(work):
    out = []
    inc = os.path.join(REPO, 'include')
    for cxx in ('g++', 'clang++'):
        exe = os.path.join(work, 'layout_' + cxx.replace('+', 'p'))
        p = run([cxx, '-std=c++11', '-Wno-invalid-offsetof', '-I', inc, '-DFFSM2_HEADER=<ffsm2/machine.hpp>', os.path.join(HERE, 'static', 'layout_probe.cpp'), '-o', exe])
        if p.returncode != 0:
            out.append({'name': 'c18.layout.%s.build' % cxx, 'status': 'UNDECIDED', 'detail': p.stderr.decode()[-800:]})
            continue
        r = run([exe])
        for ln in r.stdout.decode().splitlines():
            m = re.match(r'^payload=(\S+) alignof=(\d+) (\w+)\.storage offset=(\d+) alignof\(\w+\)=(\d+) ok=(\d)', ln)
            if m:
                pay, al, rec, off, ral, ok = m.groups()
                name = 'c18.layout.%s.%s.%s' % (cxx, rec, pay)
                out.append({'name': name, 'status': 'SUCCESS' if ok == '1' else 'FAILURE', 'detail': ln,
                            'label': None if ok == '1' else 'F5-payload-storage-misaligned'})
            m = re.match(r'^TaskStatus .* ok=(\d)', ln)
            if m:
                out.append({'name': 'c18.layout.%s.TaskStatus' % cxx, 'status': 'SUCCESS' if m.group(1) == '1' else 'FAILURE', 'detail': ln,
                            'label': None if m.group(1) == '1' else 'F5-taskstatus-misaligned'})
    # allocation symbols
    for wit, defs in (('w_machine', []), ('w_machine', ['W_MANUAL']), ('w_serial', []), ('w_containers', [])):
        obj = os.path.join(work, 'alloc_%s_%s.o' % (wit, '_'.join(defs)))
        p = run(['g++', '-std=c++11', '-O0', '-c', '-I', inc, '-DFFSM2_HEADER=<ffsm2/machine.hpp>'] + ['-D' + d for d in defs] + [os.path.join(HERE, 'witness', wit + '.cpp'), '-o', obj])
        name = 'c18.noalloc.%s%s' % (wit, '.' + '.'.join(defs) if defs else '')
        if p.returncode != 0:
            out.append({'name': name, 'status': 'UNDECIDED', 'detail': p.stderr.decode()[-600:]})
            continue
        nm = run(['nm', '-u', obj]).stdout.decode()
        bad = [l.split()[-1] for l in nm.splitlines() if re.search(r'\b(_Znw|_Zna|_Zdl|_Zda|malloc|calloc|realloc|free)\w*$', l.strip())]
        out.append({'name': name, 'status': 'SUCCESS' if not bad else 'FAILURE', 'detail': 'undefined allocation symbols: %s' % (bad or 'none'), 'label': None})
    return out


def ubsan_replay(work):
    """does the misaligned store show up on the real code?"""
    exe = os.path.join(work, 'align_ubsan')
    p = run(['clang++', '-std=c++11', '-O0', '-fsanitize=alignment', '-fno-sanitize-recover=alignment', '-I', os.path.join(REPO, 'include'),
             '-DFFSM2_HEADER=<ffsm2/machine.hpp>', os.path.join(HERE, 'replay', 'alignment_ubsan.cpp'), '-o', exe])
    if p.returncode != 0:
        return None, p.stderr.decode()[-600:]
    r = run([exe])
    return r.returncode != 0, (r.stderr.decode() + r.stdout.decode())[-800:]
