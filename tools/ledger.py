#!/usr/bin/env python3
"""ledger.py [--json out.json]: the assume/guarantee ledger of the contract units.

For every unit, every callee that is replaced by a contract is an *assumption* of that unit.  This tool matches each
assumed contract with the unit(s) that *enforce* a contract on the same function (same source line of the same template
function) and compares the clause texts:

  same        the assumed requires are a superset of the enforced requires, the assumed ensures a subset of the enforced
              ensures (plus history-variable definitions), the assumed frame a superset of the enforced frame: the
              caller's view is literally (a weakening of) what is proved
  instance    a contract is enforced on the same function but the clause texts differ (an instantiation of a generated
              contract at other constants, or a restatement): NOT compared here -- listed so that it can be reviewed
  user-code   the callee is user code (state callbacks, logger implementation): the contract is the model of arbitrary
              user code, by design an assumption
  unproved    no unit enforces any contract on that function

Reads the AST cache of tools/show_unit.py (/tmp/w/astcache); dumps what is missing from /repo's current tree."""
import sys, os, re, json, collections
HERE = os.path.dirname(os.path.dirname(os.path.abspath(__file__)))
sys.path.insert(0, HERE); sys.path.insert(0, os.path.join(HERE, 'tools'))
import check, unit as U
from cxxast import AST, Unsupported, dump_ast


def norm(t):
    return re.sub(r'\s+', ' ', t).strip()


def clauses(b, cname, for_decl):
    req, ens, asg = set(), set(), set()
    for kind, tag, text in b.contract_text(cname, for_decl):
        t = norm(text)
        if kind == 'requires':
            req.add(t)
        elif kind == 'ensures':
            ens.add(t)
        else:
            m = re.match(r'^__CPROVER_assigns\((.*)\)$', t)
            asg |= set(x.strip() for x in U.UnitBuild._split_params(m.group(1))) if m and m.group(1).strip() else set()
    return req, ens, asg


def main():
    variant = 'include'
    cache = '/tmp/w/astcache'; os.makedirs(cache, exist_ok=True)
    units = check.load_units()
    asts = {}
    enforced = collections.defaultdict(list)     # (file, line) -> [(unit, req, ens, asg, target_requires)]
    assumed = []                                 # (unit, callee cname, (file, line), owner, mode, req, ens, asg)
    for u in units:
        key = check.ast_key(u['witness'], variant, check.witness_defines(u))
        path = os.path.join(cache, key + '.json')
        src = os.path.join(HERE, 'witness', u['witness'] + '.cpp')
        hdr = os.path.join(check.REPO, 'include/ffsm2/machine.hpp')
        if key not in asts:
            if not os.path.exists(path) or os.path.getmtime(path) < max(os.path.getmtime(src), os.path.getmtime(hdr)):
                v = check.VARIANTS[variant]
                dump_ast(src, path, v['inc'], ['FFSM2_HEADER=' + v['header']] + check.witness_defines(u))
            asts[key] = AST(path)
        b = U.UnitBuild(asts[key], u)
        try:
            b.build()
        except Unsupported as e:
            print('SKIP %s: %s' % (u['id'], str(e)[:120]), file=sys.stderr)
            continue
        fi = b.ctx.fn_info
        t = b.target_cname
        if t in fi:
            c = b.cfg['contracts'].get(t, {})
            req, ens, asg = clauses(b, t, False)
            treq = set(norm('__CPROVER_requires(%s)' % x) for x in c.get('requires_target', []))
            enforced[(os.path.basename(str(fi[t]['file'])), fi[t]['line'])].append((u['id'], req - treq, ens, asg, bool(u.get('bounded'))))
        for cname, mode in b.ctx.fn_mode.items():
            if mode not in ('contract', 'stub') or cname == t or cname not in b.ctx.fn_decls:
                continue
            info = fi.get(cname)
            if not info:
                continue
            req, _, asg = clauses(b, cname, True)
            _, ens, _ = clauses(b, cname, False)          # without the history-variable definitions (ensures_callee): nothing to prove for those
            assumed.append((u['id'], cname, (os.path.basename(str(info['file'])), info['line']), str(info.get('owner')), mode, req, ens, asg))
    rows = []
    for uid, cname, key, owner, mode, req, ens, asg in assumed:
        if mode == 'stub' or not owner.startswith('ffsm2::') or 'LoggerInterfaceT' in owner:
            rows.append((uid, cname, 'user-code', '')); continue
        cands = [e for e in enforced.get(key, []) if e[0] != uid]
        if not cands:
            rows.append((uid, cname, 'unproved', '')); continue
        same = [e for e in cands if e[1] <= req and ens <= e[2] and (not e[3] or e[3] <= asg or asg >= e[3])]
        if same:
            rows.append((uid, cname, 'same', ', '.join(sorted(e[0] + (' (bounded)' if e[4] else '') for e in same))))
        else:
            rows.append((uid, cname, 'instance', ', '.join(sorted(e[0] for e in cands))))
    cnt = collections.Counter(r[2] for r in rows)
    print('assumed callee contracts: %d  %s' % (len(rows), dict(cnt)))
    by = collections.defaultdict(list)
    for uid, cname, st, who in rows:
        if st in ('unproved', 'instance'):
            by[(st, cname, who)].append(uid)
    for (st, cname, who), us in sorted(by.items()):
        print('%-9s %-60s <- %s   [assumed in %d units: %s%s]' % (st, cname, who or '-', len(us), ', '.join(us[:4]), ' ...' if len(us) > 4 else ''))
    if '--json' in sys.argv:
        out = sys.argv[sys.argv.index('--json') + 1]
        json.dump([{'unit': r[0], 'callee': r[1], 'status': r[2], 'enforced_by': r[3]} for r in rows], open(out, 'w'), indent=1)


if __name__ == '__main__':
    main()
