#!/usr/bin/env python3
"""cxx2c: lower instantiated C++ member functions (clang JSON AST) to C for CBMC.

The C text produced here is a mechanical rendering of the compiler's resolved AST of the code in
/repo: statement order, conditions, operators, constants, casts and calls are those of the AST.

What is changed / dropped (complete list, see DESIGN.md section 2.1):
  * classes -> structs, bases -> leading members `_b<i>`, methods -> free functions with `self`
  * references -> pointers; temporaries hoisted in front of the full expression
  * static constexpr data members and non-type template parameters -> global symbolic constants
    (`<Struct>__<NAME>`), computed / constrained in the generated `init_consts()`
  * arrays whose extent is such a constant -> arrays of a fixed maximum with the constant as logical
    bound; every subscript of such an array gets an explicit bound obligation
  * destructors of RAII locals -> explicit calls at scope exit
  * constexpr / noexcept / access control / namespaces / attributes dropped
  * forward<>() and move() are identities; placement new of trivially copyable T -> assignment / ctor call
Anything else raises Unsupported (the check then exits 2, undecided).
"""
import re, sys, os
from cxxast import AST, Rec, Unsupported, canon_type, type_str, FN_KINDS, split_targs

BUILTIN = {
    'unsigned char': 'uint8_t', 'unsigned short': 'uint16_t', 'unsigned int': 'uint32_t', 'unsigned': 'uint32_t',
    'int': 'int', 'bool': '_Bool', 'void': 'void', 'unsigned long': 'uint64_t', 'unsigned long long': 'uint64_t',
    'long': 'int64_t', 'long long': 'int64_t', 'char': 'char', 'signed char': 'int8_t', 'short': 'int16_t',
    'uint8_t': 'uint8_t', 'uint16_t': 'uint16_t', 'uint32_t': 'uint32_t', 'uint64_t': 'uint64_t',
    'float': 'float', 'double': 'double',
}
BUILTIN_CANON = {'uint8_t': 'unsigned char', 'uint16_t': 'unsigned short', 'uint32_t': 'unsigned int', 'uint64_t': 'unsigned long'}
INT_RANGE = {'uint8_t': (0, 255), 'uint16_t': (0, 65535), 'uint32_t': (0, 2**32 - 1), 'uint64_t': (0, 2**64 - 1),
             'int': (-2**31, 2**31 - 1), '_Bool': (0, 1), 'char': (-128, 127), 'int8_t': (-128, 127),
             'int16_t': (-2**15, 2**15 - 1), 'int64_t': (-2**63, 2**63 - 1)}

OPNAMES = {'operator bool': 'op_bool', 'operator=': 'op_assign', 'operator++': 'op_inc', 'operator--': 'op_dec',
           'operator->': 'op_arrow', 'operator*': 'op_deref', 'operator!=': 'op_ne', 'operator==': 'op_eq',
           'operator&=': 'op_andassign', 'operator&': 'op_and', 'operator[]': 'op_index', 'operator+=': 'op_addassign',
           'operator|': 'op_or', 'operator|=': 'op_orassign'}


def sanitize(s):
    s = re.sub(r'[^A-Za-z0-9_]', '_', s)
    s = re.sub(r'_+', '_', s).strip('_')
    return s


def deref(e):
    """text of *e with &-cancellation"""
    e = e.strip()
    if e.startswith('(&') and e.endswith(')') and _balanced(e[2:-1]):
        return e[2:-1]
    if e.startswith('&') and _balanced(e[1:]) and re.match(r'^&[A-Za-z_][A-Za-z0-9_]*$', e):
        return e[1:]
    return '(*%s)' % e


def addr(e):
    e = e.strip()
    if e.startswith('(*') and e.endswith(')') and _balanced(e[2:-1]):
        return e[2:-1]
    return '(&%s)' % e


def _balanced(s):
    d = 0
    for ch in s:
        if ch == '(':
            d += 1
        elif ch == ')':
            d -= 1
            if d < 0:
                return False
    return d == 0


class Ctx:
    """One lowering context = one generated C translation unit."""

    def __init__(self, ast, cfg):
        self.ast = ast
        self.cfg = cfg                      # unit configuration (dict), see unit.py
        self.rec_alias = {}                 # Rec.id -> C struct name
        self.rec_order = []                 # Recs in order of definition need
        self.rec_done = set()
        self.rec_defs = {}                  # Rec.id -> C text
        self.opaque = set()                 # Rec ids emitted as opaque structs
        self.enum_defs = {}                 # name -> text
        self.consts = {}                    # cname -> dict(kind, ctype, init (C text) | leaf info)
        self.const_order = []
        self.fn_names = {}                  # fn id -> cname
        self.fn_used_names = {}
        self.fn_queue = []                  # function nodes whose bodies are to be lowered
        self.fn_decls = {}                  # cname -> (signature text, fn node, mode)
        self.fn_bodies = {}                 # cname -> C text of body
        self.fn_mode = {}                   # cname -> 'body' | 'contract' | 'stub'
        self.fn_info = {}                   # cname -> dict (params, rettype, src)
        self.dropped = []                   # notes about what was dropped
        self.array_bounds = {}              # (Rec.id, field) -> extent cname or int
        self.extra_globals = []
        self.anon = 0

    # ------------------------------------------------------------------ records / types
    def rec_cname(self, r):
        if r.id in self.rec_alias:
            return self.rec_alias[r.id]
        # aliases configured by regex on the canonical name
        for alias, pat in self.cfg.get('recs', {}).items():
            if re.search(pat, r.qname):
                if alias in self.rec_alias.values():
                    # same alias twice: only allowed when it is the same record
                    other = [i for i, a in self.rec_alias.items() if a == alias][0]
                    if other != r.id:
                        continue
                self.rec_alias[r.id] = alias
                return alias
        base = sanitize(r.name) or 'anon'
        n = 1
        name = base
        while name in self.rec_alias.values() or name in self.cfg.get('recs', {}):
            n += 1
            name = '%s_%d' % (base, n)
        self.rec_alias[r.id] = name
        return name

    def ctype(self, tnode_or_str, for_field_of=None):
        """C type text (without declarator) and a declarator suffix for arrays; returns (base, suffix, isref)"""
        t = tnode_or_str if isinstance(tnode_or_str, str) else type_str(tnode_or_str)
        t = t.strip()
        isref = False
        if t.endswith('&&'):
            t = t[:-2].strip(); isref = True
        elif t.endswith('&'):
            t = t[:-1].strip(); isref = True
        # array suffixes
        suffix = ''
        m = re.match(r'^(.*?)((?:\[[^\]]*\])+)$', t)
        # reference to array: T (&)[N]
        m2 = re.match(r'^(.*?)\(&\)((?:\[[^\]]*\])+)$', t)
        if m2:
            t = m2.group(1).strip(); suffix = m2.group(2); isref = True
        elif m:
            t = m.group(1).strip(); suffix = m.group(2)
        ptr = ''
        while True:
            t = re.sub(r'\b(const|volatile)\b\s*$', '', t).strip()
            if t.endswith('*'):
                ptr += '*'; t = t[:-1].strip()
            else:
                break
        c = canon_type(t)
        if '(' in c:
            raise Unsupported('function / member pointer type %s' % t)
        if c in BUILTIN:
            base = BUILTIN[c]
        elif c in ('std::nullptr_t', 'nullptr_t'):
            base = 'void'; ptr += '*'
        else:
            r = self.ast.rec_by_qname.get(c)
            if r is not None:
                self.need_rec(r, by_value=(ptr == '' and not isref))
                base = 'struct ' + self.rec_cname(r)
            else:
                e = self.enum_of(c)
                if e is None:
                    al = self.resolve_alias(c)
                    if al is None:
                        fr = self.fuzzy_rec(c)
                        if fr is not None:
                            self.need_rec(fr, by_value=(ptr == '' and not isref))
                            return 'struct ' + self.rec_cname(fr) + ptr, suffix, isref
                        raise Unsupported('unknown type %r (canonical %r)' % (t, c))
                    b2, s2, r2 = self.ctype(al)
                    if s2 or r2:
                        raise Unsupported('alias %s to array/reference type' % c)
                    return b2 + ptr, suffix, isref
                base = e
        return base + ptr, suffix, isref

    def rec_of(self, tstr):
        """record named by a (possibly sugared / cv-qualified / pointer) type string, or None"""
        t = tstr.strip()
        t = re.sub(r'[*&\s]+$', '', t)
        c = canon_type(t)
        r = self.ast.rec_by_qname.get(c)
        if r is not None:
            return r
        if c in BUILTIN or not c:
            return None
        al = self.resolve_alias(c)
        if al is not None:
            return self.rec_of(al)
        return self.fuzzy_rec(c)

    def norm_type_name(self, c):
        """canonical name with alias-typed template arguments resolved (clang leaves sugar inside
        the argument lists of not fully desugared type strings)"""
        m = re.match(r'^([^<]*)<(.*)>$', c)
        if not m:
            al = self.resolve_alias(c)
            if al is not None:
                return self.norm_type_name(canon_type(al, keep_top_cv=True))
            return BUILTIN_CANON.get(c, c)
        args = [self.norm_type_name(a.strip()) for a in split_targs(m.group(2))]
        return '%s<%s>' % (m.group(1), ','.join(args))

    def fuzzy_rec(self, c):
        n = self.norm_type_name(c)
        if n in self.ast.rec_by_qname:
            return self.ast.rec_by_qname[n]
        hits = [r for q, r in self.ast.rec_by_qname.items() if q.endswith('::' + n)]
        if len(hits) == 1:
            return hits[0]
        return None

    def resolve_alias(self, c):
        """`Rec::Alias` -> the aliased type string (member typedefs of instantiated records)"""
        depth = 0
        cut = None
        for i in range(len(c) - 1, 0, -1):
            ch = c[i]
            if ch == '>':
                depth += 1
            elif ch == '<':
                depth -= 1
            elif ch == ':' and c[i - 1] == ':' and depth == 0:
                cut = i - 1
                break
        if not hasattr(self, '_ns_aliases'):
            self._ns_aliases = {}
            for n in self.ast.ids.values():
                if n.get('kind') in ('TypeAliasDecl', 'TypedefDecl') and n.get('name'):
                    p = self.ast.parent.get(n['id'])
                    if p is not None and p.get('kind') in ('NamespaceDecl', 'TranslationUnitDecl'):
                        self._ns_aliases.setdefault(self._decl_qname(n), n)
        if c in self._ns_aliases:
            return type_str(self._ns_aliases[c]['type'])
        if cut is None:
            return None
        r = self.ast.rec_by_qname.get(c[:cut])
        if r is None:
            return None
        a = r.aliases.get(c[cut + 2:])
        if a is None:
            return None
        return type_str(a['type'])

    def ctype_decl(self, tnode, name):
        base, suffix, isref = self.ctype(tnode)
        if isref:
            if suffix:
                return '%s (*%s)%s' % (base, name, suffix)
            return '%s *%s' % (base, name)
        return '%s %s%s' % (base, name, suffix)

    def enum_of(self, c):
        # find EnumDecl by qualified name
        if not hasattr(self, '_enums'):
            self._enums = {}
            for n in self.ast.ids.values():
                if n.get('kind') == 'EnumDecl' and n.get('name'):
                    q = self._decl_qname(n)
                    self._enums[q] = n
        n = self._enums.get(c)
        if n is None:
            # nested enum of a class template specialisation prints with template args: try suffix match
            for q, e in self._enums.items():
                if c.endswith('::' + e['name']) and canon_type(q) == c:
                    n = e
            if n is None:
                return None
        name = sanitize(c.replace('ffsm2::detail::', '').replace('ffsm2::', ''))
        if name not in self.enum_defs:
            fixed = n.get('fixedUnderlyingType')
            items = [c2 for c2 in n.get('inner', []) if c2.get('kind') == 'EnumConstantDecl']
            vals, cur = [], 0
            for it in items:
                v = self._enum_value(it, cur)
                vals.append((it['name'], v)); cur = v + 1
            if fixed:
                ub = BUILTIN[canon_type(type_str(fixed))]
                txt = 'typedef %s %s;\n' % (ub, name)
            else:
                txt = 'typedef unsigned int %s;\n' % name
            for nm, v in vals:
                txt += '#define %s__%s ((%s)%d)\n' % (name, nm, name, v)
            self.enum_defs[name] = txt
            self._enum_consts = getattr(self, '_enum_consts', {})
            for it in items:
                self._enum_consts[it['id']] = '%s__%s' % (name, it['name'])
        return name

    def _enum_value(self, it, cur):
        for c in it.get('inner', []) or []:
            v = self._find_value(c)
            if v is not None:
                return v
        return cur

    def _find_value(self, n):
        if 'value' in n and n.get('kind') in ('ConstantExpr', 'IntegerLiteral'):
            return int(n['value'])
        for c in n.get('inner', []) or []:
            v = self._find_value(c)
            if v is not None:
                return v
        return None

    def _decl_qname(self, n):
        parts = [n.get('name', '')]
        p = self.ast.parent.get(n['id'])
        while p is not None:
            k = p.get('kind')
            if k == 'NamespaceDecl':
                parts.append(p.get('name', ''))
            elif k in ('CXXRecordDecl', 'ClassTemplateSpecializationDecl'):
                r = self.ast.recs.get(p.get('id'))
                if r is not None:
                    parts.append(r.qname)
                    break
                parts.append(p.get('name', ''))
            p = self.ast.parent.get(p.get('id')) if p.get('id') else None
        return '::'.join(reversed(parts))

    def need_rec(self, r, by_value=True):
        if r.id in self.rec_done:
            return
        self.rec_done.add(r.id)
        cname = self.rec_cname(r)
        if any(re.search(p, r.qname) for p in self.cfg.get('opaque', [])):
            self.opaque.add(r.id)
            keep = self.cfg.get('opaque_keep', {}).get(cname, [])
            flds = ''
            for f in r.fields:
                if f.get('name') in keep:
                    flds += ' ' + self.ctype_decl(f['type'], f['name']) + ';'
            # an opaque record keeps only the listed fields; the rest of its state is one havocable blob
            self.rec_defs[r.id] = 'struct %s {%s char _opaque; };\n' % (cname, flds)
            self.rec_order.append(r)
            return
        lines = []
        for i, b in enumerate(r.bases):
            br = self.ast.rec_by_qname.get(b)
            if br is None:
                raise Unsupported('base class %s of %s not found' % (b, r.qname))
            self.need_rec(br)
            lines.append('\tstruct %s _b%d;' % (self.rec_cname(br), i))
        anon_unions = {}
        for f in r.fields:
            nm = f.get('name')
            if not nm:
                # anonymous union member: handled through the IndirectFieldDecls; emit a C11 anonymous union
                ur = self._anon_record_of(f)
                if ur is None:
                    raise Unsupported('unnamed field in %s' % r.qname)
                lines.append('\tunion {')
                for uf in ur.get('inner', []):
                    if uf.get('kind') == 'FieldDecl':
                        lines.append('\t\t' + self.ctype_decl(uf['type'], uf['name']) + ';')
                lines.append('\t};')
                continue
            base, suffix, isref = self.ctype(f['type'])
            if suffix:
                suffix = self._symbolic_extent(r, f, suffix)
            if isref:
                lines.append('\t%s *%s%s;' % (base, nm, suffix))
            else:
                lines.append('\t%s %s%s;' % (base, nm, suffix))
        if not lines:
            lines.append('\tchar _empty;')
        self.rec_defs[r.id] = '/* %s  [%s:%s] */\nstruct %s {\n%s\n};\n' % (
            r.qname, os.path.basename(str(self.ast.src(r.node)[0])), self.ast.src(r.node)[1], cname, '\n'.join(lines))
        self.rec_order.append(r)

    def _anon_record_of(self, f):
        # the anonymous union's CXXRecordDecl precedes the unnamed FieldDecl among the siblings
        p = self.ast.parent.get(f['id'])
        sib = p.get('inner', [])
        i = sib.index(f)
        for j in range(i - 1, -1, -1):
            if sib[j].get('kind') == 'CXXRecordDecl' and sib[j].get('tagUsed') == 'union' and not sib[j].get('name'):
                return sib[j]
        return None

    def _pattern_field_type(self, r, fname):
        if r.pattern is None:
            return None
        for c in r.pattern.get('inner', []) or []:
            if c.get('kind') == 'FieldDecl' and c.get('name') == fname:
                t = c['type'].get('desugaredQualType') or c['type']['qualType']
                # alias to an array type declared in the pattern?
                m = re.match(r'^(?:const\s+)?([A-Za-z_][A-Za-z0-9_]*)$', t.strip())
                if m:
                    for a in r.pattern.get('inner', []) or []:
                        if a.get('kind') in ('TypeAliasDecl', 'TypedefDecl') and a.get('name') == m.group(1):
                            return a['type']['qualType']
                return t
        return None

    def _symbolic_extent(self, r, f, suffix):
        """Replace a concrete array extent by the maximum when the pattern declares it through a
        static constant; remember the logical bound."""
        pt = self._pattern_field_type(r, f['name'])
        if pt is None:
            return suffix
        m = re.search(r'\[\s*([A-Za-z_][A-Za-z0-9_]*)\s*\]\s*$', pt)
        if not m:
            # e.g. uint8_t[sizeof(Payload)]: concrete per witness
            return suffix
        ext = m.group(1)
        if ext not in r.statics:
            return suffix
        cn = self.const_ref(r, r.statics[ext])
        mx = self.cfg.get('array_max', {}).get('%s.%s' % (self.rec_cname(r), f['name']), self.cfg.get('array_max', {}).get('*', 256))
        self.array_bounds[(r.id, f['name'])] = (cn, mx)
        return '[%d]' % mx

    # ------------------------------------------------------------------ symbolic constants
    def const_ref(self, r, var):
        """C name of the global standing for static data member `var` of record r"""
        cname = '%s__%s' % (self.rec_cname(r), var['name'])
        if cname in self.consts:
            return cname
        base, suffix, isref = self.ctype(var['type'])
        info = {'kind': 'static', 'ctype': base, 'rec': r, 'var': var, 'init': None, 'concrete': None}
        self.consts[cname] = info
        init = None
        for c in var.get('inner', []) or []:
            if c.get('kind') not in ('TemplateArgument',) and 'kind' in c and not c['kind'].endswith('Attr'):
                init = c
        if init is None:
            raise Unsupported('static member %s without initialiser' % cname)
        L = FnLower(self, None, owner=r)
        info['init'] = L.expr(init)
        if L.pre:
            raise Unsupported('temporaries in constant initialiser %s' % cname)
        info['concrete'] = self.eval_const(init)
        self.const_order.append(cname)
        return cname

    def tparam_ref(self, owner_name, pname, ctype, concrete):
        cname = '%s__%s' % (owner_name, pname)
        if cname not in self.consts:
            self.consts[cname] = {'kind': 'leaf', 'ctype': ctype, 'concrete': concrete}
            self.const_order.append(cname)
        else:
            if self.consts[cname].get('concrete') != concrete:
                # the same template parameter name with two different values inside one unit: two
                # different instantiations were mixed -> not parametric
                raise Unsupported('template parameter %s has two values (%s, %s) in one unit' % (
                    cname, self.consts[cname].get('concrete'), concrete))
        return cname

    def eval_const(self, n):
        """best-effort constant evaluation of an initialiser in the witness (for binding checks)"""
        try:
            return _Eval(self.ast).ev(n)
        except Exception:
            return None

    # ------------------------------------------------------------------ functions
    def fn_cname(self, fn):
        fid = fn['id']
        if fid in self.fn_names:
            return self.fn_names[fid]
        owner = self.ast.fn_owner.get(fid)
        nm = fn.get('name', '')
        k = fn['kind']
        nparams = len(self.ast.params(fn))
        if k == 'CXXConstructorDecl':
            kindtag = 'ctor'
            if fn.get('isImplicit') or self._is_copy_or_move(fn, owner):
                kindtag = 'cctor' if self._is_copy_or_move(fn, owner) == 'copy' else ('mctor' if self._is_copy_or_move(fn, owner) == 'move' else 'ctor')
            nm = '%s%d' % (kindtag, nparams)
        elif k == 'CXXDestructorDecl':
            nm = 'dtor'
        elif k == 'CXXConversionDecl':
            nm = OPNAMES.get(nm, sanitize(nm))
        else:
            nm = OPNAMES.get(nm, sanitize(nm))
        base = (self.rec_cname(owner) + '__' + nm) if owner is not None else nm
        # disambiguate overloads deterministically
        cands = []
        if owner is not None:
            for m in owner.methods:
                if m.get('name') == fn.get('name') and m['kind'] == k:
                    cands.append(m)
        else:
            cands = [fn]
        name = base
        if k not in ('CXXConstructorDecl', 'CXXDestructorDecl'):
            same_n = [m for m in cands if len(self.ast.params(m)) == nparams]
            diff_n = len(set(len(self.ast.params(m)) for m in cands)) > 1
            if diff_n:
                name += '__%d' % nparams
            if len(same_n) > 1:
                quals = set(self._is_const(m) for m in same_n)
                if len(quals) > 1 and self._is_const(fn):
                    name += '_c'
            targs = self.ast.fn_targs(fn)
            if targs:
                tt = [x for t in targs for x in AST._targ_print(t) if t[0] == 'type' or (t[0] == 'pack' and all(y[0] == 'type' for y in t[1]))]
                if tt:
                    name += '__' + sanitize('_'.join(tt))
        if owner is None and self.ast.fn_targs(fn):
            tt = [x for t in self.ast.fn_targs(fn) for x in AST._targ_print(t) if t[0] == 'type' or (t[0] == 'pack' and all(y[0] == 'type' for y in t[1]))]
            name = base + ('__' + sanitize('_'.join(tt)) if tt else '')
        n = 1
        final = name
        while final in self.fn_used_names and self.fn_used_names[final] != fid:
            # same printed name: only legitimate for the same function seen through a redeclaration
            n += 1
            final = '%s_v%d' % (name, n)
        self.fn_used_names[final] = fid
        self.fn_names[fid] = final
        return final

    def _is_const(self, fn):
        t = fn.get('type', {}).get('qualType', '')
        return bool(re.search(r'\)\s*const', t))

    def _is_copy_or_move(self, fn, owner):
        if fn['kind'] != 'CXXConstructorDecl' or owner is None:
            return None
        ps = self.ast.params(fn)
        if len(ps) != 1:
            return None
        t = canon_type(type_str(ps[0]['type']))
        if t == owner.qname + '&':
            return 'copy'
        if t == owner.qname + '&&':
            return 'move'
        return None

    def is_user_code(self, fn):
        owner = self.ast.fn_owner.get(fn['id'])
        if owner is not None and owner.in_main_file:
            return True
        f, _ = self.ast.src(fn)
        return False

    def call_mode(self, fn):
        """'body' (lower and keep), 'contract' (declaration + contract from the spec), 'stub'"""
        cname = self.fn_cname(fn)
        owner = self.ast.fn_owner.get(fn['id'])
        modes = self.cfg.get('calls', {})
        if cname in modes:
            return modes[cname]
        for pat, m in modes.items():
            if pat.startswith('re:') and re.search(pat[3:], cname):
                return m
        if owner is not None and owner.in_main_file:
            return 'stub'
        if fn.get('virtual'):
            return 'stub'
        return self.cfg.get('default_call', 'body')

    def want_fn(self, fn):
        """register a callee; returns its C name"""
        d = self.ast.definition_of(fn)
        cname = self.fn_cname(d)
        self.fn_names[fn['id']] = cname
        if cname not in self.fn_mode:
            mode = self.call_mode(d)
            self.fn_mode[cname] = mode
            self.fn_queue.append(d)
        return cname

    def lower_all(self):
        while self.fn_queue:
            fn = self.fn_queue.pop(0)
            cname = self.fn_cname(fn)
            if cname in self.fn_decls:
                continue
            L = FnLower(self, fn)
            sig = L.signature()
            self.fn_decls[cname] = sig
            self.fn_info[cname] = L.info()
            mode = self.fn_mode.get(cname, 'body')
            if mode == 'body':
                if self.ast.body_of(fn) is None and not fn.get('isImplicit') and not fn.get('explicitlyDefaulted'):
                    raise Unsupported('no body for %s' % cname)
                self.fn_bodies[cname] = L.body()


class _Eval:
    """tiny constant evaluator over the instantiated AST (only for cross-checking bindings)"""

    def __init__(self, ast):
        self.ast = ast

    def ev(self, n, env=None):
        k = n['kind']
        if k in ('IntegerLiteral',):
            return int(n['value'])
        if k == 'CharacterLiteral':
            return int(n['value'])
        if k == 'CXXBoolLiteralExpr':
            return 1 if n['value'] else 0
        if k in ('ImplicitCastExpr', 'ParenExpr', 'ConstantExpr', 'CStyleCastExpr', 'CXXStaticCastExpr', 'CXXFunctionalCastExpr', 'ExprWithCleanups'):
            if k == 'ConstantExpr' and 'value' in n:
                try:
                    return int(n['value'])
                except ValueError:
                    return {'true': 1, 'false': 0}.get(n['value'])
            v = self.ev(n['inner'][-1], env)
            t = canon_type(type_str(n['type']))
            c = BUILTIN.get(t)
            if c in INT_RANGE and v is not None and c != '_Bool':
                lo, hi = INT_RANGE[c]
                if lo == 0:
                    v &= hi
            if c == '_Bool':
                v = 1 if v else 0
            return v
        if k == 'SubstNonTypeTemplateParmExpr':
            return self.ev(n['inner'][-1], env)
        if k == 'SizeOfPackExpr':
            raise ValueError('pack')
        if k == 'DeclRefExpr':
            r = n['referencedDecl']
            if env and r['id'] in env:
                return env[r['id']]
            d = self.ast.ids.get(r['id'])
            if d is None:
                raise ValueError('decl')
            if d['kind'] == 'EnumConstantDecl':
                raise ValueError('enum')
            init = [c for c in d.get('inner', []) or [] if 'kind' in c and not c['kind'].endswith('Attr') and c['kind'] != 'TemplateArgument']
            return self.ev(init[-1], env)
        if k == 'BinaryOperator':
            a = self.ev(n['inner'][0], env); b = self.ev(n['inner'][1], env)
            op = n['opcode']
            return {'+': lambda: a + b, '-': lambda: a - b, '*': lambda: a * b, '/': lambda: a // b, '%': lambda: a % b,
                    '<': lambda: int(a < b), '>': lambda: int(a > b), '<=': lambda: int(a <= b), '>=': lambda: int(a >= b),
                    '==': lambda: int(a == b), '!=': lambda: int(a != b), '<<': lambda: a << b, '>>': lambda: a >> b,
                    '&': lambda: a & b, '|': lambda: a | b, '&&': lambda: int(bool(a) and bool(b)), '||': lambda: int(bool(a) or bool(b))}[op]()
        if k == 'UnaryOperator':
            a = self.ev(n['inner'][0], env)
            return {'-': -a, '!': int(not a), '~': ~a, '+': a}[n['opcode']]
        if k == 'ConditionalOperator':
            c = self.ev(n['inner'][0], env)
            return self.ev(n['inner'][1] if c else n['inner'][2], env)
        if k == 'CallExpr':
            ref = n['inner'][0]
            while ref['kind'] != 'DeclRefExpr':
                ref = ref['inner'][0]
            f = self.ast.ids.get(ref['referencedDecl']['id'])
            f = self.ast.definition_of(f)
            body = self.ast.body_of(f)
            ps = self.ast.params(f)
            e2 = {}
            for p, a in zip(ps, n['inner'][1:]):
                e2[p['id']] = self.ev(a, env)
            ret = [s for s in body.get('inner', []) if s.get('kind') == 'ReturnStmt']
            return self.ev(ret[0]['inner'][0], e2)
        raise ValueError(k)


class Scope:
    def __init__(self, kind):
        self.kind = kind            # 'fn' | 'block' | 'loop'
        self.dtors = []             # list of C statements to run at exit (in declaration order)


class FnLower:
    def __init__(self, ctx, fn, owner=None):
        self.ctx = ctx
        self.ast = ctx.ast
        self.fn = fn
        self.owner = owner if owner is not None else (self.ast.fn_owner.get(fn['id']) if fn else None)
        self.refs = set()           # decl ids of reference-typed variables / params (lowered to pointers)
        self.pre = []               # hoisted statements for the current full expression
        self.tmp = 0
        self.scopes = []
        self.mptr = {}              # decl id of member-pointer variable -> resolved method decl
        self.names = {}             # decl id -> C identifier (renamed locals)
        self.loop_ordinal = 0
        self.no_hoist = 0
        self.rettype = None
        self.ret_is_ref = False
        self.local_types = {}       # TypeAliasDecl inside bodies are ignored

    # ---------------------------------------------------------------- signature
    def kind(self):
        return self.fn['kind']

    def is_method(self):
        if self.kind() == 'FunctionDecl':
            return False
        return self.fn.get('storageClass') != 'static'

    def signature(self):
        fn = self.fn
        ps = self.ast.params(fn)
        parts = []
        if self.is_method():
            parts.append('struct %s *self' % self.ctx.rec_cname(self.owner))
            self.ctx.need_rec(self.owner)
        self.param_names = []
        for i, p in enumerate(ps):
            nm = p.get('name') or ('_unnamed%d' % i)
            if nm in self.param_names:
                # expanded parameter packs repeat the pack's name: args, args_1, args_2, ...
                nm = '%s_%d' % (nm, sum(1 for x in self.param_names if x == nm or x.startswith(nm + '_')))
            t = type_str(p['type'])
            if self._is_mptr_type(t):
                self.mptr[p['id']] = None
                continue
            base, suffix, isref = self.ctx.ctype(p['type'])
            if isref:
                self.refs.add(p['id'])
            self.names[p['id']] = nm
            decl = self.ctx.ctype_decl(p['type'], nm)
            parts.append(decl)
            self.param_names.append(nm)
            self.param_is_ptr = getattr(self, 'param_is_ptr', {})
            self.param_is_ptr[nm] = '*' in decl
        if self.kind() in ('CXXConstructorDecl', 'CXXDestructorDecl'):
            rt = 'void'
        else:
            q = fn['type']['qualType']
            rts = self._return_type_str()
            try:
                base, suffix, isref = self.ctx.ctype(rts)
            except Unsupported:
                # alias templates are not desugared inside function type strings: take the type of the
                # returned expression (clang converts it to the declared return type)
                rts = self._type_of_returned_expr()
                if rts is None:
                    raise
                base, suffix, isref = self.ctx.ctype(rts)
            if suffix:
                # reference to array
                rt = base + ' *'
                self.ret_is_ref = True
                self.ret_array = True
            else:
                rt = base + (' *' if isref else '')
                self.ret_is_ref = isref
        self.rettype = rt
        return '%s %s(%s)' % (rt, self.ctx.fn_cname(fn), ', '.join(parts) if parts else 'void')

    def _return_type_str(self):
        fn = self.fn
        q = fn['type'].get('desugaredQualType') or fn['type']['qualType']
        # return type = text before the top-level parameter list
        depth = 0
        for i in range(len(q) - 1, -1, -1):
            ch = q[i]
            if ch == ')':
                depth += 1
            elif ch == '(':
                depth -= 1
                if depth == 0:
                    # this is the start of the parameter list only if what follows the matching ')' is the tail
                    head = q[:i].strip()
                    return head
        raise Unsupported('cannot parse function type %s' % q)

    def _type_of_returned_expr(self):
        def find(n):
            if not isinstance(n, dict):
                return None
            if n.get('kind') == 'ReturnStmt' and n.get('inner'):
                return type_str(n['inner'][0]['type'])
            for c in n.get('inner', []) or []:
                r = find(c)
                if r:
                    return r
            return None
        b = self.ast.body_of(self.fn)
        return find(b) if b is not None else None

    @staticmethod
    def _is_mptr_type(t):
        return '::*)' in t or '::*' in t

    def info(self):
        f, l = self.ast.src(self.fn)
        rng = self.fn.get('range', {})
        return {'cname': self.ctx.fn_cname(self.fn), 'file': f, 'line': l,
                'qualtype': self.fn['type']['qualType'], 'rettype': self.rettype,
                'owner': self.owner.qname if self.owner is not None else None, 'name': self.fn.get('name'),
                'params': list(getattr(self, 'param_names', [])), 'param_is_ptr': dict(getattr(self, 'param_is_ptr', {}))}

    # ---------------------------------------------------------------- expressions
    def newtmp(self, prefix='__t'):
        self.ctx.anon += 1
        return '%s%d' % (prefix, self.ctx.anon)

    def hoist(self, stmt):
        if self.no_hoist:
            raise Unsupported('temporary needed inside a short-circuit operand / loop condition')
        self.pre.append(stmt)

    def expr(self, n):
        k = n['kind']
        m = getattr(self, 'e_' + k, None)
        if m is None:
            raise Unsupported('expression kind %s' % k)
        return m(n)

    def e_ParenExpr(self, n):
        return '(' + self.expr(n['inner'][0]) + ')'

    def e_IntegerLiteral(self, n):
        t = canon_type(type_str(n['type']))
        v = n['value']
        if t in ('unsigned int', 'unsigned'):
            return v + 'u'
        if t in ('unsigned long', 'unsigned long long'):
            return v + 'ull'
        if t in ('long', 'long long'):
            return v + 'll'
        return v

    def e_CharacterLiteral(self, n):
        return '((%s)%s)' % (self.ctx.ctype(n['type'])[0], n['value'])

    def e_CXXBoolLiteralExpr(self, n):
        return '1' if n['value'] else '0'

    def e_CXXNullPtrLiteralExpr(self, n):
        return '((void*)0)'

    def e_GNUNullExpr(self, n):
        return '((void*)0)'

    def e_ConstantExpr(self, n):
        return self.expr(n['inner'][0])

    def e_ExprWithCleanups(self, n):
        return self.expr(n['inner'][0])

    def e_CXXBindTemporaryExpr(self, n):
        return self.expr(n['inner'][0])

    def e_CXXThisExpr(self, n):
        return 'self'

    def e_SubstNonTypeTemplateParmExpr(self, n):
        parm = [c for c in n['inner'] if c.get('kind') == 'NonTypeTemplateParmDecl']
        if not parm:
            raise Unsupported('SubstNonTypeTemplateParmExpr without parameter')
        pname = parm[0]['name']
        val = None
        try:
            val = _Eval(self.ast).ev(n['inner'][-1])
        except Exception:
            pass
        # the parameter belongs to the template whose pattern declares it: find the enclosing
        # function template / class template
        owner_name = self._tparam_owner(parm[0])
        base, _, _ = self.ctx.ctype(parm[0]['type'])
        return self.ctx.tparam_ref(owner_name, pname, base, val)

    def _tparam_owner(self, parm):
        # walk up from the NonTypeTemplateParmDecl's canonical declaration: it sits directly under a
        # ClassTemplateDecl / FunctionTemplateDecl / partial specialisation
        d = self.ast.ids.get(parm['id'])
        p = self.ast.parent.get(parm['id'])
        # the node inside the Subst expression is a copy; locate the original by id
        if p is None or p.get('kind') == 'SubstNonTypeTemplateParmExpr':
            p = None
        if p is not None and p.get('kind') == 'FunctionTemplateDecl':
            # member function template: name it after the enclosing record alias + function name
            rec = self.owner
            return (self.ctx.rec_cname(rec) + '__' if rec is not None else '') + sanitize(p.get('name', 'fn'))
        if p is not None and p.get('kind') in ('ClassTemplateDecl', 'ClassTemplatePartialSpecializationDecl'):
            # parameter of a class template: use the alias of the record being lowered if it is a
            # specialisation of that template, else the template's name
            name = p.get('name')
            if self.owner is not None and self.owner.name == name:
                return self.ctx.rec_cname(self.owner)
            # maybe a base class / other record already aliased
            for rid, alias in self.ctx.rec_alias.items():
                if self.ast.recs[rid].name == name:
                    return alias
            return sanitize(name)
        return 'T'

    def e_SizeOfPackExpr(self, n):
        owner = self.ctx.rec_cname(self.owner) if self.owner is not None else 'T'
        nm = 'sizeof_' + sanitize(n.get('name', 'pack'))
        val = None
        return self.ctx.tparam_ref(owner, nm, 'uint64_t', self._pack_size())

    def _pack_size(self):
        r = self.owner
        if r is None:
            return None
        for t in r.targs:
            if t[0] == 'pack':
                return len(AST._targ_print(t))
        # partial specialisation X<..., TL_<Ts...>>: the pack is the argument list of the one type-list argument
        from cxxast import split_targs
        lists = [t[1] for t in r.targs if t[0] == 'type' and re.match(r'^ffsm2::detail::TL_<.*>$', t[1])]
        if len(lists) == 1:
            inner = lists[0][len('ffsm2::detail::TL_<'):-1]
            return len(split_targs(inner)) if inner.strip() else 0
        return None

    def cname_of_decl(self, d):
        return self.names.get(d['id'], d.get('name'))

    def e_DeclRefExpr(self, n):
        r = n['referencedDecl']
        k = r['kind']
        if k == 'EnumConstantDecl':
            # make sure the enum is defined
            self.ctx.ctype(n['type'])
            ec = getattr(self.ctx, '_enum_consts', {}).get(r['id'])
            if ec is None:
                raise Unsupported('enum constant %s' % r.get('name'))
            return ec
        if k in ('VarDecl', 'ParmVarDecl'):
            d = self.ast.ids.get(r['id'])
            if r['id'] in self.mptr:
                raise Unsupported('member pointer used as value')
            # static data member or namespace-scope constant?
            if d is not None and k == 'VarDecl':
                p = self.ast.parent.get(r['id'])
                pr = self.ast.recs.get(p.get('id')) if p is not None and p.get('id') else None
                if d.get('storageClass') == 'static' and pr is not None:
                    return self.ctx.const_ref(pr, d)
                if p is not None and p.get('kind') in ('NamespaceDecl', 'TranslationUnitDecl'):
                    v = self.ctx.eval_const(n)
                    if v is None:
                        raise Unsupported('namespace-scope variable %s' % r.get('name'))
                    base = self.ctx.ctype(n['type'])[0]
                    return '((%s)%d)' % (base, v)
            nm = self.names.get(r['id'], r.get('name'))
            if r['id'] in self.refs:
                return '(*%s)' % nm
            return nm
        if k in FN_KINDS:
            d = self.ast.ids.get(r['id'])
            return self.ctx.want_fn(d)
        if k == 'NonTypeTemplateParmDecl':
            raise Unsupported('dependent expression (uninstantiated template)')
        raise Unsupported('DeclRefExpr to %s' % k)

    def e_ImplicitCastExpr(self, n):
        ck = n['castKind']
        sub = n['inner'][0]
        if ck in ('LValueToRValue', 'NoOp', 'FunctionToPointerDecay', 'UserDefinedConversion', 'ConstructorConversion'):
            return self.expr(sub)
        if ck == 'ArrayToPointerDecay':
            return self.expr(sub)
        if ck in ('IntegralCast', 'IntegralToBoolean', 'PointerToBoolean', 'BooleanToSignedIntegral', 'IntegralToFloating', 'FloatingToIntegral'):
            return '((%s)%s)' % (self.ctx.ctype(n['type'])[0], self.expr(sub))
        if ck == 'NullToPointer':
            return '((%s)0)' % self.ctx.ctype(n['type'])[0]
        if ck in ('UncheckedDerivedToBase', 'DerivedToBase'):
            return self.to_base(n, sub)
        if ck == 'BitCast':
            return '((%s)%s)' % (self.ctx.ctype(n['type'])[0], self.expr(sub))
        if ck == 'ToVoid':
            return '((void)%s)' % self.expr(sub)
        raise Unsupported('cast kind %s' % ck)

    def to_base(self, n, sub):
        e = self.expr(sub)
        st = type_str(sub['type'])
        is_ptr = st.rstrip().endswith('*')
        src = self.ctx.rec_of(st.rstrip().rstrip('*'))
        if src is None:
            raise Unsupported('derived-to-base from unknown type %s' % st)
        cur = src
        path = ''
        steps = n.get('path', [])
        final = self.ctx.rec_of(type_str(n['type']))
        for si, step in enumerate(steps):
            target = canon_type(step['name'])
            if si == len(steps) - 1 and final is not None:
                # the last step lands on the type of the cast itself: unambiguous even when two bases are
                # specialisations of the same template
                hit = [i for i, b in enumerate(cur.bases) if self.ast.rec_by_qname.get(b) is final]
                if len(hit) == 1:
                    path += '._b%d' % hit[0]
                    cur = final
                    continue
            idx = None
            for i, b in enumerate(cur.bases):
                if b == target:
                    idx = i
            if idx is None:
                # path names may be printed differently: fall back to search
                idx = self._find_base(cur, target)
                if idx is None:
                    raise Unsupported('base %s not found in %s' % (target, cur.qname))
            path += '._b%d' % idx
            cur = self.ast.rec_by_qname[cur.bases[idx]]
        self.ctx.need_rec(src)
        if is_ptr:
            return '(&(%s)->%s)' % (e, path[1:])
        return '%s%s' % (self._lv(e), path)

    def _find_base(self, cur, target):
        t = self.ctx.norm_type_name(canon_type(target))
        hits = []
        for i, b in enumerate(cur.bases):
            bn = self.ctx.norm_type_name(canon_type(b))
            if bn == t or bn.endswith('::' + t):
                hits.append(i)
        if len(hits) == 1:
            return hits[0]
        if not hits:
            # the path entry may be printed with sugar we cannot normalise: accept a unique base with the same template name
            tn = t.split('<')[0].split('::')[-1]
            hits = [i for i, b in enumerate(cur.bases) if b.split('<')[0].split('::')[-1] == tn]
            if len(hits) == 1:
                return hits[0]
        return None

    @staticmethod
    def _lv(e):
        return e if re.match(r'^[A-Za-z_][A-Za-z0-9_>.\-\[\]]*$', e) else '(%s)' % e

    def e_CStyleCastExpr(self, n):
        ck = n.get('castKind')
        if ck == 'ToVoid':
            return '((void)0)' if n['inner'][0]['kind'] == 'IntegerLiteral' else '((void)%s)' % self.expr(n['inner'][0])
        if ck in ('UncheckedDerivedToBase', 'DerivedToBase'):
            return self.to_base(n, n['inner'][0])
        if ck == 'NoOp' or ck == 'LValueToRValue':
            return self.expr(n['inner'][0])
        if ck == 'ConstructorConversion':
            return self.expr(n['inner'][0])
        if ck == 'BaseToDerived':
            raise Unsupported('base-to-derived cast')
        base, suffix, isref = self.ctx.ctype(n['type'])
        if isref:
            return self.expr(n['inner'][0])
        if base.startswith('struct ') and not base.endswith('*'):
            return self.expr(n['inner'][0])
        return '((%s)%s)' % (base, self.expr(n['inner'][0]))

    e_CXXStaticCastExpr = e_CStyleCastExpr
    e_CXXFunctionalCastExpr = e_CStyleCastExpr
    e_CXXConstCastExpr = e_CStyleCastExpr

    def e_CXXReinterpretCastExpr(self, n):
        base, suffix, isref = self.ctx.ctype(n['type'])
        return '((%s)%s)' % (base, self.expr(n['inner'][0]))

    def e_BinaryOperator(self, n):
        a, b = n['inner']
        op = n['opcode']
        if op in ('&&', '||'):
            ea = self.expr(a)
            self.no_hoist += 1
            try:
                eb = self.expr(b)
            finally:
                self.no_hoist -= 1
            return '(%s %s %s)' % (ea, op, eb)
        if op == ',':
            return '(%s, %s)' % (self.expr(a), self.expr(b))
        if op in ('->*', '.*'):
            raise Unsupported('pointer-to-member access outside a call')
        ea = self.expr(a); eb = self.expr(b)
        if op == '=' and self._is_class(n['type']):
            return '(%s = %s)' % (ea, eb)
        return '(%s %s %s)' % (ea, op, eb)

    e_CompoundAssignOperator = e_BinaryOperator

    def _is_class(self, t):
        return self.ctx.rec_of(type_str(t)) is not None

    def e_UnaryOperator(self, n):
        op = n['opcode']
        sub = n['inner'][0]
        if op == '&':
            # address of member function -> handled by callers (member pointers)
            if sub['kind'] == 'DeclRefExpr' and sub['referencedDecl']['kind'] in FN_KINDS and '::*' in type_str(n['type']):
                raise Unsupported('member pointer value')
            return addr(self.expr(sub))
        if op == '*':
            return deref(self.expr(sub))
        s = self.expr(sub)
        if n.get('isPostfix'):
            return '(%s%s)' % (s, op)
        return '(%s%s)' % (op, s)

    def e_ConditionalOperator(self, n):
        c, a, b = n['inner']
        ec = self.expr(c)
        # lower each arm with its own buffer of hoisted statements; arms that need temporaries turn the
        # operator into an if/else that assigns a result variable (evaluation stays conditional)
        saved = self.pre
        saved_nh = self.no_hoist
        self.no_hoist = 0
        self.pre = []; ea = self.expr(a); pa = self.pre
        self.pre = []; eb = self.expr(b); pb = self.pre
        self.pre = saved
        self.no_hoist = saved_nh
        if not pa and not pb:
            return '(%s ? %s : %s)' % (ec, ea, eb)
        if self.no_hoist:
            raise Unsupported('temporary needed inside a short-circuit operand / loop condition')
        base, suffix, isref = self.ctx.ctype(n['type'])
        if suffix or isref:
            raise Unsupported('conditional operator with temporaries of array/reference type')
        if base == 'void':
            self.hoist('if (%s) { %s %s; } else { %s %s; }' % (ec, ' '.join(pa), ea, ' '.join(pb), eb))
            return '((void)0)'
        r = self.newtmp('__q')
        self.hoist('%s %s;' % (base, r))
        self.hoist('if (%s) { %s %s = %s; } else { %s %s = %s; }' % (ec, ' '.join(pa), r, ea, ' '.join(pb), r, eb))
        return r

    def e_ArraySubscriptExpr(self, n):
        a, b = n['inner']
        ea = self.expr(a); eb = self.expr(b)
        bound = self._array_bound_of(a)
        if bound is not None:
            return '%s[__idx(%s, %s)]' % (self._lv(ea), eb, bound)
        return '%s[%s]' % (self._lv(ea), eb)

    def _array_bound_of(self, a):
        # strip decay
        while a['kind'] in ('ImplicitCastExpr', 'ParenExpr'):
            a = a['inner'][0]
        if a['kind'] == 'MemberExpr':
            fid = a.get('referencedMemberDecl')
            f = self.ast.ids.get(fid)
            if f is not None:
                p = self.ast.parent.get(fid)
                r = self.ast.recs.get(p.get('id')) if p is not None else None
                if r is not None:
                    self.ctx.need_rec(r)
                    b = self.ctx.array_bounds.get((r.id, f['name']))
                    if b:
                        return b[0]
        return None

    def e_MemberExpr(self, n):
        base = n['inner'][0]
        nm = n['name']
        md = self.ast.ids.get(n.get('referencedMemberDecl'))
        if md is not None and md['kind'] in FN_KINDS:
            raise Unsupported('bound member function outside a call')
        if md is not None and md['kind'] == 'VarDecl':
            # static member accessed through an object
            p = self.ast.parent.get(md['id'])
            pr = self.ast.recs.get(p.get('id'))
            return self.ctx.const_ref(pr, md)
        b = self.expr(base)
        if md is not None and md['kind'] == 'FieldDecl' and not nm:
            # anonymous struct/union member: transparent in C11
            return b if not n.get('isArrow') else deref(b)
        if md is not None and md['kind'] == 'FieldDecl':
            p = self.ast.parent.get(md['id'])
            pr = self.ast.recs.get(p.get('id')) if p is not None and p.get('id') else None
            if pr is not None:
                self.ctx.need_rec(pr)
        if n.get('isArrow'):
            e = '%s->%s' % (self._lv(b), nm)
        else:
            e = '%s.%s' % (self._lv(b), nm)
        if md is not None and md['kind'] == 'FieldDecl' and type_str(md['type']).rstrip().endswith('&'):
            return '(*%s)' % e
        return e

    # ---- calls
    def lower_args(self, f, argnodes):
        out = []
        ps = self.ast.params(f) if f else []
        for i, a in enumerate(argnodes):
            if a['kind'] == 'CXXDefaultArgExpr':
                # default argument: lower the parameter's default expression
                a = self._default_arg(ps[i])
            if i < len(ps):
                pt = type_str(ps[i]['type'])
                if self._is_mptr_type(pt):
                    continue
                if pt.rstrip().endswith('&'):
                    out.append(addr(self.expr(a)))
                    continue
            out.append(self.expr(a))
        return out

    def _default_arg(self, p):
        for c in p.get('inner', []) or []:
            if 'kind' in c and not c['kind'].endswith('Attr'):
                return c
        raise Unsupported('default argument not found')

    def e_CXXDefaultArgExpr(self, n):
        raise Unsupported('default argument outside a call')

    def e_CXXDefaultInitExpr(self, n):
        raise Unsupported('default member initialiser outside a constructor')

    def _wrap_call(self, f, call):
        """calls returning references yield pointers in C"""
        q = type_str(f['type'])
        head = q[:q.index('(')].strip() if '(' in q else q
        # careful with function types returning references to arrays: 'T (&(args))[N]'
        try:
            L = FnLower(self.ctx, f)
            rts = L._return_type_str()
        except Unsupported:
            rts = head
        if rts.rstrip().endswith('&') or re.search(r'\(&\)', rts):
            return '(*%s)' % call
        return call

    def e_CXXMemberCallExpr(self, n):
        me = n['inner'][0]
        while me['kind'] in ('ParenExpr', 'ImplicitCastExpr'):
            me = me['inner'][0]
        if me['kind'] == 'BinaryOperator' and me.get('opcode') in ('->*', '.*'):
            obj, mp = me['inner']
            while mp['kind'] in ('ImplicitCastExpr', 'ParenExpr'):
                mp = mp['inner'][0]
            if mp['kind'] != 'DeclRefExpr' or mp['referencedDecl']['id'] not in self.mptr or self.mptr[mp['referencedDecl']['id']] is None:
                raise Unsupported('call through unresolved member pointer')
            f = self.mptr[mp['referencedDecl']['id']]
            o = self.expr(obj)
            if me['opcode'] == '.*':
                o = addr(o)
            o = self._adjust_this(o, obj, f, via_ptr=True)
            cname = self.ctx.want_fn(f)
            return self._wrap_call(f, '%s(%s)' % (cname, ', '.join([o] + self.lower_args(f, n['inner'][1:]))))
        if me['kind'] != 'MemberExpr':
            raise Unsupported('member call through %s' % me['kind'])
        f = self.ast.ids.get(me.get('referencedMemberDecl'))
        if f is None:
            raise Unsupported('member call to unknown decl %s' % me.get('name'))
        obj = me['inner'][0]
        o = self.expr(obj)
        if not me.get('isArrow'):
            o = addr(o)
        if f['kind'] == 'CXXDestructorDecl':
            return '((void)0)'
        cname = self.ctx.want_fn(f)
        if f.get('storageClass') == 'static':
            return self._wrap_call(f, '%s(%s)' % (cname, ', '.join(self.lower_args(f, n['inner'][1:]))))
        return self._wrap_call(f, '%s(%s)' % (cname, ', '.join([o] + self.lower_args(f, n['inner'][1:]))))

    def _adjust_this(self, o, objnode, f, via_ptr):
        """object expression of a ->* call: clang does not insert the derived-to-base cast; add it"""
        owner = self.ast.fn_owner.get(f['id'])
        st = type_str(objnode['type']).rstrip()
        src = self.ctx.rec_of(st.rstrip('*').strip())
        if owner is None or src is None or src.id == owner.id:
            return o
        path = self._path_to_base(src, owner)
        if path is None:
            raise Unsupported('no path from %s to %s' % (src.qname, owner.qname))
        return '(&(%s)->%s)' % (o, path[1:]) if path else o

    def _path_to_base(self, src, target):
        if src.id == target.id:
            return ''
        for i, b in enumerate(src.bases):
            br = self.ast.rec_by_qname.get(b)
            if br is None:
                continue
            sub = self._path_to_base(br, target)
            if sub is not None:
                return '._b%d' % i + sub
        return None

    def e_CXXOperatorCallExpr(self, n):
        ref = n['inner'][0]
        while ref['kind'] != 'DeclRefExpr':
            ref = ref['inner'][0]
        f = self.ast.ids.get(ref['referencedDecl']['id'])
        op = ref['referencedDecl']['name']
        a = n['inner'][1:]
        if f is None:
            raise Unsupported('operator call to unknown decl')
        d = self.ast.definition_of(f)
        if op == 'operator=' and (d.get('isImplicit') or d.get('explicitlyDefaulted')) :
            # implicit (member-wise) assignment of an aggregate-like class = struct assignment
            self._check_memberwise_ok(self.ast.fn_owner.get(d['id']))
            return '(%s = %s)' % (self.expr(a[0]), self.expr(a[1]))
        cname = self.ctx.want_fn(f)
        if d['kind'] == 'FunctionDecl':
            # non-member operator
            return self._wrap_call(d, '%s(%s)' % (cname, ', '.join(self.lower_args(d, a))))
        return self._wrap_call(d, '%s(%s)' % (cname, ', '.join([addr(self.expr(a[0]))] + self.lower_args(d, a[1:]))))

    def _check_memberwise_ok(self, r):
        """struct assignment is the meaning of the implicit copy/move only if every member and base is
        itself copied member-wise (no user-provided operator= below)"""
        if r is None:
            return
        seen = set()

        def chk(x):
            if x.id in seen:
                return
            seen.add(x.id)
            for m in x.methods:
                if m.get('name') == 'operator=' and not m.get('isImplicit') and not m.get('explicitlyDefaulted') and self.ast.body_of(self.ast.definition_of(m)) is not None:
                    raise Unsupported('user-provided operator= inside member-wise copy of %s' % r.qname)
            for b in x.bases:
                br = self.ast.rec_by_qname.get(b)
                if br:
                    chk(br)
            for f in x.fields:
                fr = self.ctx.rec_of(re.sub(r'\[[^\]]*\]', '', type_str(f['type'])))
                if fr:
                    chk(fr)
        chk(r)

    def e_CallExpr(self, n):
        ref = n['inner'][0]
        while ref['kind'] != 'DeclRefExpr':
            if ref['kind'] in ('ImplicitCastExpr', 'ParenExpr'):
                ref = ref['inner'][0]
            else:
                raise Unsupported('indirect call')
        d = self.ast.ids.get(ref['referencedDecl']['id'])
        nm = ref['referencedDecl']['name']
        if d is None:
            raise Unsupported('call to unknown function %s' % nm)
        q = self.ast.fn_qname.get(d['id'], nm)
        if nm in ('forward', 'move') and q.startswith('ffsm2::'):
            return self.expr(n['inner'][1])
        if nm == 'fill' and q == 'ffsm2::fill' and len(n['inner']) == 3 and self._fill_is_memset_of_ref(d):
            # ffsm2::fill(T& a, char v) { memset(&a, v, sizeof(a)); }  -- sizeof of an array member whose extent is a
            # symbolic constant is that constant times the element size (the instantiated sizeof is the witness's).
            # Only this exact shape is treated as an intrinsic (checked on the AST above); anything else is lowered
            # like any other function from its instantiated body.
            a = n['inner'][1]
            ea = self.expr(a)
            ev = self.expr(n['inner'][2])
            bound = self._array_bound_of(a)
            if bound is not None:
                return 'memset(%s, (int)%s, (size_t)%s * sizeof(%s[0]))' % (ea, ev, bound, self._lv(ea))
            return 'memset(&%s, (int)%s, sizeof(%s))' % (self._lv(ea), ev, ea)
        if nm == 'memset':
            args = [self.expr(a) for a in n['inner'][1:]]
            return 'memset(%s)' % ', '.join(args)
        owner = self.ast.fn_owner.get(d['id'])
        cname = self.ctx.want_fn(d)
        dd = self.ast.definition_of(d)
        return self._wrap_call(dd, '%s(%s)' % (cname, ', '.join(self.lower_args(dd, n['inner'][1:]))))

    def _fill_is_memset_of_ref(self, d):
        """the callee is exactly  void fill(T& a, const char value) { memset(&a, static_cast<int>(value), sizeof(a)); }"""
        dd = self.ast.definition_of(d)
        body = self.ast.body_of(dd)
        params = [c for c in dd.get('inner', []) if c.get('kind') == 'ParmVarDecl']
        if body is None or len(params) != 2 or len(body.get('inner', [])) != 1:
            return False
        pt = params[0].get('type', {}).get('qualType', '')
        is_lref = '&' in pt and '&&' not in pt       # clang prints a reference to array as 'T &[N]' here
        if not is_lref:
            return False                      # by value / rvalue reference: memset would clear a copy
        call = body['inner'][0]
        while call.get('kind') in ('ExprWithCleanups', 'ImplicitCastExpr', 'CStyleCastExpr') and call.get('inner'):
            call = call['inner'][0]
        if call.get('kind') != 'CallExpr' or len(call.get('inner', [])) != 4:
            return False
        def strip(x):
            while x.get('kind') in ('ImplicitCastExpr', 'CXXStaticCastExpr', 'CStyleCastExpr', 'ParenExpr', 'CXXFunctionalCastExpr') and x.get('inner'):
                x = x['inner'][0]
            return x
        def refs(x, p):
            x = strip(x)
            return x.get('kind') == 'DeclRefExpr' and x.get('referencedDecl', {}).get('id') == p['id']
        fn = strip(call['inner'][0])
        fname = fn.get('referencedDecl', {}).get('name') if fn.get('kind') == 'DeclRefExpr' else (fn.get('name') if fn.get('kind') == 'UnresolvedLookupExpr' else None)
        if fname != 'memset':
            return False
        a0, a1, a2 = (strip(x) for x in call['inner'][1:])
        if not (a0.get('kind') == 'UnaryOperator' and a0.get('opcode') == '&' and refs(a0['inner'][0], params[0])):
            return False
        if not refs(a1, params[1]):
            return False
        if not (a2.get('kind') == 'UnaryExprOrTypeTraitExpr' and a2.get('name') == 'sizeof' and a2.get('inner') and refs(a2['inner'][0], params[0])):
            return False
        return True

    # ---- construction
    def _ctor_of(self, n):
        # CXXConstructExpr does not carry the constructor id in clang 14's JSON; resolve by the
        # printed constructor type among the record's constructors
        r = self.ctx.rec_of(type_str(n['type']))
        if r is None:
            return None, None
        want = n.get('ctorType', {}).get('qualType')
        cands = [m for m in r.methods if m['kind'] == 'CXXConstructorDecl']
        hits = [m for m in cands if m.get('type', {}).get('qualType') == want]
        if not hits:
            return r, None
        # prefer the definition
        for h in hits:
            dh = self.ast.definition_of(h)
            if self.ast.body_of(dh) is not None:
                return r, dh
        return r, hits[0]

    def _trivial_copy(self, r, ctor):
        if ctor is None:
            return True
        if ctor.get('isImplicit') or ctor.get('explicitlyDefaulted'):
            k = self.ctx._is_copy_or_move(ctor, r)
            if k:
                try:
                    self._check_copy_ctor_memberwise(r)
                except Unsupported:
                    # a member has a user-provided copy constructor: the defaulted constructor is not a plain struct copy;
                    # lower it from its (compiler-generated) member initialisers instead
                    if self.ast.body_of(ctor) is None:
                        raise
                    return False
                return True
        return False

    def _check_copy_ctor_memberwise(self, r):
        seen = set()

        def chk(x):
            if x.id in seen:
                return
            seen.add(x.id)
            for m in x.methods:
                if m['kind'] == 'CXXConstructorDecl' and self.ctx._is_copy_or_move(m, x) and not m.get('isImplicit') and not m.get('explicitlyDefaulted'):
                    if x.id != r.id:
                        raise Unsupported('user-provided copy constructor of %s inside member-wise copy of %s' % (x.qname, r.qname))
            for b in x.bases:
                br = self.ast.rec_by_qname.get(b)
                if br:
                    chk(br)
            for f in x.fields:
                fr = self.ctx.rec_of(re.sub(r'\[[^\]]*\]', '', type_str(f['type'])).rstrip('&').strip())
                if fr and not type_str(f['type']).rstrip().endswith('&'):
                    chk(fr)
        chk(r)

    def construct_into(self, target, n):
        """emit statements constructing the object `target` (a C lvalue) from the CXXConstructExpr n;
        returns list of C statements"""
        r, ctor = self._ctor_of(n)
        args = n.get('inner', []) or []
        if r is None:
            raise Unsupported('construction of unknown type %s' % type_str(n['type']))
        self.ctx.need_rec(r)
        if r.id in self.ctx.opaque:
            # a record this unit treats as opaque (its functions are other units' business): a copy copies the blob, any other
            # constructor leaves contents this unit knows nothing about (arbitrary)
            if ctor is not None and self.ctx._is_copy_or_move(ctor, r) and args:
                return ['%s = %s;' % (target, self.expr(args[0]))]
            t = self.ctx.ctype(n['type'])[0]
            nm = self.newtmp('__o')
            return ['{ %s %s; %s = %s; }   /* opaque %s constructed: contents arbitrary */' % (t, nm, target, nm, self.ctx.rec_cname(r))]
        if ctor is None:
            if not args:
                # trivial default construction: members stay indeterminate
                return []
            raise Unsupported('constructor %s of %s not found' % (n.get('ctorType', {}).get('qualType'), r.qname))
        kind = self.ctx._is_copy_or_move(ctor, r)
        if kind and self._trivial_copy(r, ctor):
            return ['%s = %s;' % (target, self.expr(args[0]))]
        if (ctor.get('isImplicit') or ctor.get('explicitlyDefaulted')) and not kind and self.ast.body_of(ctor) is None:
            if n.get('zeroing'):
                return ['memset(&%s, 0, sizeof(%s));' % (target, target)]
            return []
        cname = self.ctx.want_fn(ctor)
        a = self.lower_args(ctor, args)
        stmts = []
        if n.get('zeroing'):
            stmts.append('memset(&%s, 0, sizeof(%s));' % (target, target))
        stmts.append('%s(%s);' % (cname, ', '.join([addr(target)] + a)))
        return stmts

    def e_CXXConstructExpr(self, n):
        args = n.get('inner', []) or []
        if n.get('elidable') and len(args) == 1:
            return self.expr(args[0])
        r, ctor = self._ctor_of(n)
        if r is not None and ctor is not None and self.ctx._is_copy_or_move(ctor, r) and self._trivial_copy(r, ctor):
            return self.expr(args[0])
        t = self.ctx.ctype(n['type'])[0]
        nm = self.newtmp('__c')
        self.hoist('%s %s;' % (t, nm))
        for s in self.construct_into(nm, n):
            self.hoist(s)
        return nm

    e_CXXTemporaryObjectExpr = e_CXXConstructExpr

    def e_MaterializeTemporaryExpr(self, n):
        sub = n['inner'][0]
        e = self.expr(sub)
        if re.match(r'^__[ct]\d+$', e):
            return e
        base, suffix, isref = self.ctx.ctype(n['type'])
        nm = self.newtmp('__t')
        self.hoist('%s %s%s = %s;' % (base, nm, suffix, e))
        return nm

    def e_InitListExpr(self, n):
        inner = n.get('inner', []) or []
        r = self.ctx.rec_of(type_str(n['type']))
        if r is not None and type_str(n['type']).rstrip().rstrip('const ').rstrip().endswith('*'):
            r = None          # T*{x}: a pointer, not an aggregate of type T
        if r is None:
            if len(inner) == 1:
                return self.expr(inner[0])
            if len(inner) == 0:
                return '0'
            raise Unsupported('initializer list for non-class type')
        if len(inner) == 1 and canon_type(type_str(inner[0]['type'])) == canon_type(type_str(n['type'])):
            # T{x} with x of type T: reference binding or copy, not aggregate initialisation
            return self.expr(inner[0])
        # aggregate initialisation of a class: build a temporary field by field
        t = self.ctx.ctype(n['type'])[0]
        nm = self.newtmp('__a')
        self.hoist('%s %s;' % (t, nm))
        flds = [f for f in r.fields]
        if len(r.bases):
            raise Unsupported('aggregate with bases')
        for f, e in zip(flds, inner):
            if e['kind'] == 'ImplicitValueInitExpr':
                self.hoist('memset(&%s.%s, 0, sizeof(%s.%s));' % (nm, f['name'], nm, f['name']))
            elif e['kind'] == 'CXXDefaultInitExpr':
                self.hoist('%s.%s = %s;' % (nm, f['name'], self._field_default(f)))
            else:
                self.hoist('%s.%s = %s;' % (nm, f['name'], self.expr(e)))
        return nm

    def _field_default(self, f):
        for c in f.get('inner', []) or []:
            if 'kind' in c and not c['kind'].endswith('Attr'):
                return self.expr(c)
        raise Unsupported('no default member initialiser for %s' % f.get('name'))

    def e_ImplicitValueInitExpr(self, n):
        base, suffix, isref = self.ctx.ctype(n['type'])
        if base.startswith('struct') or suffix:
            raise Unsupported('value-initialisation of aggregate in expression')
        return '((%s)0)' % base

    def e_CXXScalarValueInitExpr(self, n):
        return '((%s)0)' % self.ctx.ctype(n['type'])[0]

    def e_UnaryExprOrTypeTraitExpr(self, n):
        if n.get('name') != 'sizeof':
            raise Unsupported('type trait %s' % n.get('name'))
        if 'argType' in n:
            base, suffix, isref = self.ctx.ctype(n['argType'])
            return 'sizeof(%s%s)' % (base, suffix)
        return 'sizeof(%s)' % self.expr(n['inner'][0])

    def e_CXXNewExpr(self, n):
        inner = [c for c in n.get('inner', []) if isinstance(c, dict) and 'kind' in c]
        if not n.get('isPlacement'):
            raise Unsupported('non-placement new')
        # children: placement argument(s) then initialiser (clang 14 prints initialiser last)
        init = None
        place = None
        for c in inner:
            if c['kind'] in ('CXXConstructExpr', 'InitListExpr', 'ImplicitValueInitExpr', 'ParenListExpr'):
                init = c
            else:
                place = c if place is None else place
        if place is None:
            raise Unsupported('placement new without placement argument')
        base, suffix, isref = self.ctx.ctype(n['type'])   # pointer to T
        pe = self.expr(place)
        tgt = '(*(%s)%s)' % (base, pe)
        if init is None:
            return '((void)0)'
        if init['kind'] == 'CXXConstructExpr':
            stmts = self.construct_into(tgt, init)
            for s in stmts[:-1]:
                self.hoist(s)
            if not stmts:
                return '((void)0)'
            return stmts[-1].rstrip(';')
        if init['kind'] == 'InitListExpr':
            el = init.get('inner', []) or []
            r = self.ctx.rec_of(type_str(init['type']))
            if r is None:
                if len(el) == 0:
                    return '(%s = 0)' % tgt
                return '(%s = %s)' % (tgt, self.expr(el[0]))
            return '(%s = %s)' % (tgt, self.expr(init))
        if init['kind'] == 'ImplicitValueInitExpr':
            return '(%s = 0)' % tgt
        raise Unsupported('placement new initialiser %s' % init['kind'])

    # ---------------------------------------------------------------- statements
    def flush(self, ind):
        s = ''.join(ind + p + '\n' for p in self.pre)
        self.pre = []
        return s

    def srcmark(self, n):
        f, l = self.ast.src(n) if 'id' in n else (None, None)
        if l is None:
            return ''
        return ' /*@%s:%s*/' % (os.path.basename(str(f)), l)

    def dtor_stmt(self, r, target):
        d = r.user_dtor
        cname = self.ctx.want_fn(d)
        return '%s(&%s);' % (cname, target)

    def stmt(self, n, ind='\t'):
        if n is None or not n or 'kind' not in n:
            return ind + ';\n'
        k = n['kind']
        m = getattr(self, 's_' + k, None)
        if m is not None:
            return m(n, ind)
        # expression statement
        e = self.expr(n)
        return self.flush(ind) + ind + e + ';' + self.srcmark(n) + '\n'

    def s_CompoundStmt(self, n, ind):
        self.scopes.append(Scope('block'))
        body = ''.join(self.stmt(c, ind + '\t') for c in n.get('inner', []) or [])
        sc = self.scopes.pop()
        tail = ''
        if sc.dtors and not self._ends_with_jump(n):
            tail = ''.join(ind + '\t' + d + '\n' for d in reversed(sc.dtors))
        return ind + '{\n' + body + tail + ind + '}\n'

    def _ends_with_jump(self, n):
        inner = n.get('inner', []) or []
        return bool(inner) and inner[-1].get('kind') in ('ReturnStmt', 'BreakStmt', 'ContinueStmt')

    def s_NullStmt(self, n, ind):
        return ind + ';\n'

    def s_DeclStmt(self, n, ind):
        out = ''
        for v in n.get('inner', []) or []:
            k = v.get('kind')
            if k in ('TypeAliasDecl', 'TypedefDecl', 'StaticAssertDecl', 'UsingDecl'):
                continue
            if k != 'VarDecl':
                raise Unsupported('declaration %s in body' % k)
            out += self.var_decl(v, ind)
        return out

    def var_decl(self, v, ind):
        t = v['type']
        ts = type_str(t)
        nm = v['name']
        init = None
        for c in v.get('inner', []) or []:
            if 'kind' in c and not c['kind'].endswith('Attr'):
                init = c
        out = ''
        if self._is_mptr_type(ts) or (ts.strip() == 'auto' and init is not None and self._is_mptr_type(type_str(init['type']))):
            self.mptr[v['id']] = self._resolve_mptr(init)
            return ind + '/* member pointer %s resolved statically */\n' % nm
        # rename on shadowing is not needed in C for nested blocks
        self.names[v['id']] = nm
        base, suffix, isref = self.ctx.ctype(t)
        if isref:
            self.refs.add(v['id'])
            e = self.expr(init)
            out += self.flush(ind)
            if suffix:
                out += ind + '%s (*%s)%s = %s;%s\n' % (base, nm, suffix, addr(e), self.srcmark(v))
            else:
                out += ind + '%s *%s = %s;%s\n' % (base, nm, addr(e), self.srcmark(v))
            return out
        r = self.ctx.rec_of(ts)
        if r is not None:
            out_init = None
            stmts = []
            if init is None:
                pass
            else:
                core = init
                while core['kind'] in ('ExprWithCleanups', 'CXXBindTemporaryExpr', 'CXXFunctionalCastExpr', 'MaterializeTemporaryExpr') or \
                        (core['kind'] in ('CXXConstructExpr', 'CXXTemporaryObjectExpr') and core.get('elidable') and len(core.get('inner', [])) == 1) or \
                        (core['kind'] == 'ImplicitCastExpr' and core.get('castKind') in ('NoOp', 'ConstructorConversion')):
                    core = core['inner'][0]
                if core['kind'] in ('CXXConstructExpr', 'CXXTemporaryObjectExpr'):
                    stmts = self.construct_into(nm, core)
                else:
                    out_init = self.expr(core)
            out += self.flush(ind)
            if out_init is not None:
                out += ind + '%s %s = %s;%s\n' % (base, nm, out_init, self.srcmark(v))
            else:
                out += ind + '%s %s;%s\n' % (base, nm, self.srcmark(v))
                # hoisted statements produced while lowering constructor arguments
                out += self.flush(ind)
                for s in stmts:
                    out += ind + s + '\n'
            if r.user_dtor is not None:
                self.scopes[-1].dtors.append(self.dtor_stmt(r, nm))
            return out
        if init is not None:
            e = self.expr(init)
            out += self.flush(ind)
            out += ind + '%s %s%s = %s;%s\n' % (base, nm, suffix, e, self.srcmark(v))
        else:
            out += ind + '%s %s%s;%s\n' % (base, nm, suffix, self.srcmark(v))
        return out

    def _resolve_mptr(self, init):
        n = init
        while n is not None and n['kind'] in ('ImplicitCastExpr', 'CXXStaticCastExpr', 'ParenExpr', 'CStyleCastExpr', 'ExprWithCleanups'):
            n = n['inner'][0]
        if n is not None and n['kind'] == 'UnaryOperator' and n.get('opcode') == '&':
            s = n['inner'][0]
            if s['kind'] == 'DeclRefExpr' and s['referencedDecl']['kind'] in FN_KINDS:
                return self.ast.ids.get(s['referencedDecl']['id'])
        raise Unsupported('member pointer initialiser not a direct &Class::method')

    def s_IfStmt(self, n, ind):
        inner = list(n['inner'])
        out = ''
        wrap = False
        if n.get('hasVar') or n.get('hasInit'):
            wrap = True
            out += ind + '{\n'
            ind2 = ind + '\t'
            self.scopes.append(Scope('block'))
            while inner and inner[0].get('kind') == 'DeclStmt':
                out += self.stmt(inner.pop(0), ind2)
        else:
            ind2 = ind
        c = self.expr(inner[0])
        out += self.flush(ind2)
        out += ind2 + 'if (%s)%s\n' % (c, self.srcmark(inner[0]))
        out += self._block(inner[1], ind2)
        if len(inner) > 2:
            out += ind2 + 'else\n' + self._block(inner[2], ind2)
        if wrap:
            sc = self.scopes.pop()
            out += ''.join(ind2 + d + '\n' for d in reversed(sc.dtors))
            out += ind + '}\n'
        return out

    def _block(self, n, ind):
        if n.get('kind') == 'CompoundStmt':
            return self.stmt(n, ind)
        self.scopes.append(Scope('block'))
        s = self.stmt(n, ind + '\t')
        sc = self.scopes.pop()
        tail = ''.join(ind + '\t' + d + '\n' for d in reversed(sc.dtors)) if n.get('kind') not in ('ReturnStmt', 'BreakStmt', 'ContinueStmt') else ''
        return ind + '{\n' + s + tail + ind + '}\n'

    def loop_slot(self):
        k = self.loop_ordinal
        self.loop_ordinal += 1
        return '/*LOOP-CONTRACT %s#%d*/' % (self.ctx.fn_cname(self.fn), k)

    def s_ForStmt(self, n, ind):
        init, cv, cond, inc, body = n['inner']
        out = ind + '{\n'
        ind2 = ind + '\t'
        self.scopes.append(Scope('block'))
        if init:
            out += self.stmt(init, ind2)
        if cv:
            raise Unsupported('condition variable in for')
        self.no_hoist += 1
        try:
            c = self.expr(cond) if cond else '1'
            i = self.expr(inc) if inc else ''
        finally:
            self.no_hoist -= 1
        slot = self.loop_slot()
        out += ind2 + 'for (; %s; %s)%s\n' % (c, i, self.srcmark(n))
        out += ind2 + slot + '\n'
        self.scopes.append(Scope('loop'))
        out += self._block(body, ind2)
        self.scopes.pop()
        sc = self.scopes.pop()
        out += ''.join(ind2 + d + '\n' for d in reversed(sc.dtors))
        out += ind + '}\n'
        return out

    def s_WhileStmt(self, n, ind):
        inner = n['inner']
        cond, body = inner[-2], inner[-1]
        self.no_hoist += 1
        try:
            c = self.expr(cond)
        finally:
            self.no_hoist -= 1
        slot = self.loop_slot()
        out = ind + 'while (%s)%s\n' % (c, self.srcmark(n)) + ind + slot + '\n'
        self.scopes.append(Scope('loop'))
        out += self._block(body, ind)
        self.scopes.pop()
        return out

    def s_CXXForRangeStmt(self, n, ind):
        inner = n['inner']
        init, rangeD, beginD, endD, cond, inc, loopvar, body = inner
        if init:
            raise Unsupported('range-for with init statement')
        rv = rangeD['inner'][0]
        rts = type_str(rv['type'])
        if re.search(r'\[[0-9]*\]', rts):
            return self._range_for_array(n, rv, loopvar, body, ind)
        out = ind + '{\n'
        ind2 = ind + '\t'
        self.scopes.append(Scope('block'))
        out += self.stmt(rangeD, ind2) + self.stmt(beginD, ind2) + self.stmt(endD, ind2)
        self.no_hoist += 1
        try:
            c = self.expr(cond); i = self.expr(inc)
        finally:
            self.no_hoist -= 1
        slot = self.loop_slot()
        out += ind2 + 'for (; %s; %s)%s\n' % (c, i, self.srcmark(n)) + ind2 + slot + '\n'
        self.scopes.append(Scope('loop'))
        out += ind2 + '{\n' + self.stmt(loopvar, ind2 + '\t') + self.stmt(body, ind2 + '\t') + ind2 + '}\n'
        self.scopes.pop()
        self.scopes.pop()
        out += ind + '}\n'
        return out

    def _range_for_array(self, n, rv, loopvar, body, ind):
        """for (T& x : member_array): index loop over the *declared* extent of the array"""
        init = rv['inner'][0]
        arr = self.expr(init)
        bound = self._array_bound_of(init)
        if bound is None:
            m = re.search(r'\[(\d+)\]', type_str(rv['type']))
            bound = m.group(1)
        k = '__k%d' % self.loop_ordinal
        slot = self.loop_slot()
        lv = loopvar['inner'][0]
        base, suffix, isref = self.ctx.ctype(lv['type'])
        out = ind + '{\n'
        ind2 = ind + '\t'
        out += ind2 + 'uint32_t %s = 0;\n' % k
        out += ind2 + 'for (; %s < %s; ++%s)%s\n' % (k, bound, k, self.srcmark(n)) + ind2 + slot + '\n'
        self.scopes.append(Scope('loop'))
        self.names[lv['id']] = lv['name']
        if isref:
            self.refs.add(lv['id'])
            decl = '%s *%s = &%s[%s];' % (base, lv['name'], self._lv(arr), k)
        else:
            decl = '%s %s = %s[%s];' % (base, lv['name'], self._lv(arr), k)
        out += ind2 + '{\n' + ind2 + '\t' + decl + '\n' + self.stmt(body, ind2 + '\t') + ind2 + '}\n'
        self.scopes.pop()
        out += ind + '}\n'
        return out

    def s_ReturnStmt(self, n, ind):
        live = [d for sc in self.scopes for d in sc.dtors]
        inner = n.get('inner') or []
        if inner:
            e = self.expr(inner[0])
            out = self.flush(ind)
            if self.ret_is_ref:
                e = addr(e)
            if live:
                out += ind + '%s __ret = %s;%s\n' % (self.rettype, e, self.srcmark(n))
                out += ''.join(ind + d + '\n' for d in reversed(live))
                out += ind + 'return __ret;\n'
            else:
                out += ind + 'return %s;%s\n' % (e, self.srcmark(n))
            return out
        out = ''.join(ind + d + '\n' for d in reversed(live))
        return out + ind + 'return;\n'

    def _jump(self, n, ind, word):
        live = []
        for sc in reversed(self.scopes):
            if sc.kind == 'loop':
                break
            live += list(reversed(sc.dtors))
        return ''.join(ind + d + '\n' for d in live) + ind + word + ';\n'

    def s_BreakStmt(self, n, ind):
        return self._jump(n, ind, 'break')

    def s_ContinueStmt(self, n, ind):
        return self._jump(n, ind, 'continue')

    # ---------------------------------------------------------------- function bodies
    def body(self):
        fn = self.fn
        self.scopes = [Scope('fn')]
        out = ''
        if fn['kind'] == 'CXXConstructorDecl':
            out += self.ctor_inits('\t')
        b = self.ast.body_of(fn)
        if b is not None:
            inner = ''.join(self.stmt(c, '\t') for c in b.get('inner', []) or [])
            out += inner
            sc = self.scopes[0]
            if sc.dtors and not self._ends_with_jump(b):
                out += ''.join('\t' + d + '\n' for d in reversed(sc.dtors))
        return '{\n' + out + '}\n'

    def ctor_inits(self, ind):
        """member / base initialisers in declaration order (the order clang lists them)"""
        fn = self.fn
        r = self.owner
        out = ''
        inits = [c for c in fn.get('inner', []) or [] if c.get('kind') == 'CXXCtorInitializer']
        initialised = set()
        for ci in inits:
            e = (ci.get('inner') or [None])[0]
            if 'anyInit' in ci:
                f = ci['anyInit']
                fname = f.get('name')
                initialised.add(fname)
                fd = self.ast.ids.get(f['id']) or f
                if not fname:
                    # anonymous union member initialised through its named alternative
                    raise Unsupported('initialiser for anonymous member')
                tgt = 'self->%s' % fname
                out += self.init_target(tgt, fd, e, ind)
            elif 'baseInit' in ci:
                bq = canon_type(type_str(ci['baseInit']))
                idx = None
                for i, b in enumerate(r.bases):
                    if b == bq:
                        idx = i
                if idx is None:
                    raise Unsupported('base initialiser %s' % bq)
                tgt = 'self->_b%d' % idx
                out += self.init_base(tgt, e, ind)
            elif 'delegatingInit' in ci:
                raise Unsupported('delegating constructor')
            else:
                raise Unsupported('ctor initialiser form')
        return out

    def init_base(self, tgt, e, ind):
        if e is None:
            return ''
        if e['kind'] == 'CXXInheritedCtorInitExpr':
            # `using Base::Base;`: the implicit constructor forwards its parameters to the base constructor
            # of the same signature
            br = self.ctx.rec_of(type_str(e['type']))
            want = self.fn['type']['qualType']
            hits = [m for m in (br.methods if br else []) if m['kind'] == 'CXXConstructorDecl' and m['type']['qualType'] == want]
            if not hits:
                raise Unsupported('inherited constructor %s not found in base' % want)
            bc = self.ast.definition_of(hits[0])
            cname = self.ctx.want_fn(bc)
            args = [self.names.get(p['id'], p.get('name')) for p in self.ast.params(self.fn)]
            return ind + '%s(%s);\n' % (cname, ', '.join(['&' + tgt] + args))
        core = e
        while core['kind'] in ('ExprWithCleanups', 'CXXBindTemporaryExpr'):
            core = core['inner'][0]
        if core['kind'] in ('CXXConstructExpr', 'CXXTemporaryObjectExpr'):
            stmts = self.construct_into(tgt, core)
            return self.flush(ind) + ''.join(ind + s + '\n' for s in stmts)
        if core['kind'] == 'InitListExpr' and not core.get('inner'):
            return ''
        raise Unsupported('base initialiser expression %s' % core['kind'])

    def init_target(self, tgt, fd, e, ind):
        ts = type_str(fd['type'])
        if e is None:
            return ''
        if e['kind'] == 'CXXDefaultInitExpr':
            # default member initialiser: lower the initialiser written at the field
            e = None
            for c in fd.get('inner', []) or []:
                if 'kind' in c and not c['kind'].endswith('Attr'):
                    e = c
            if e is None:
                raise Unsupported('default member initialiser of %s not found' % fd.get('name'))
        if ts.rstrip().endswith('&'):
            v = self.expr(e)
            return self.flush(ind) + ind + '%s = %s;%s\n' % (tgt, addr(v), self.srcmark(e))
        core = e
        while core['kind'] in ('ExprWithCleanups', 'CXXBindTemporaryExpr'):
            core = core['inner'][0]
        arr = re.search(r'\[(\d*)\]', ts)
        if core['kind'] in ('CXXConstructExpr', 'CXXTemporaryObjectExpr') and not arr:
            stmts = self.construct_into(tgt, core)
            return self.flush(ind) + ''.join(ind + s + '\n' for s in stmts)
        if core['kind'] == 'InitListExpr':
            r = self.ctx.rec_of(re.sub(r'\[[^\]]*\]', '', ts))
            inner = core.get('inner', []) or []
            if arr:
                # array member initialised with {}: value-initialise every element
                if inner and not all(x.get('kind') in ('ImplicitValueInitExpr',) for x in inner) and 'array_filler' not in core:
                    pass
                return self._array_value_init(tgt, fd, core, ind)
            if r is None:
                v = self.expr(core)
                return self.flush(ind) + ind + '%s = %s;%s\n' % (tgt, v, self.srcmark(e))
            v = self.expr(core)
            return self.flush(ind) + ind + '%s = %s;%s\n' % (tgt, v, self.srcmark(e))
        if arr and core['kind'] == 'ImplicitValueInitExpr':
            return ind + 'memset(%s, 0, sizeof(%s));\n' % (tgt, tgt)
        if arr and core['kind'] == 'ArrayInitLoopExpr':
            return self._array_init_loop(tgt, fd, core, ind)
        v = self.expr(core)
        return self.flush(ind) + ind + '%s = %s;%s\n' % (tgt, v, self.srcmark(e))

    def _array_init_loop(self, tgt, fd, core, ind):
        """member-wise copy of an array member whose elements have a non-trivial copy constructor (implicit copy constructor of the
        enclosing class): for i in [0, extent): construct tgt[i] from src[i]"""
        ts = type_str(fd['type'])
        inner = [x for x in (core.get('inner', []) or []) if 'kind' in x]
        if len(inner) != 2 or inner[0]['kind'] != 'OpaqueValueExpr':
            raise Unsupported('ArrayInitLoopExpr shape')
        src = self.expr(inner[0]['inner'][0])
        p = self.ast.parent.get(fd['id'])
        pr = self.ast.recs.get(p.get('id')) if p is not None else None
        bound = None
        if pr is not None:
            self.ctx.need_rec(pr)
            b = self.ctx.array_bounds.get((pr.id, fd['name']))
            if b:
                bound = b[0]
        if bound is None:
            bound = re.search(r'\[(\d+)\]', ts).group(1)
        k = self.newtmp('__i')
        self._ail = getattr(self, '_ail', [])
        self._ail.append((inner[0].get('id'), src, k))
        try:
            elt = '%s[%s]' % (tgt, k)
            e = inner[1]
            while e['kind'] in ('ExprWithCleanups', 'CXXBindTemporaryExpr'):
                e = e['inner'][0]
            if e['kind'] in ('CXXConstructExpr', 'CXXTemporaryObjectExpr'):
                body = self.construct_into(elt, e)
            else:
                body = ['%s = %s;' % (elt, self.expr(e))]
            pre = self.flush(ind + '\t')
        finally:
            self._ail.pop()
        out = ind + '{ uint32_t %s; for (%s = 0; %s < %s; ++%s)\n' % (k, k, k, bound, k)
        out += ind + '/*LOOP-CONTRACT %s#copy_%s*/\n' % (self.ctx.fn_cname(self.fn), fd['name'])
        out += ind + '{\n' + pre + ''.join(ind + '\t' + s2 + '\n' for s2 in body) + ind + '} }\n'
        return out

    def e_OpaqueValueExpr(self, n):
        for oid, src, k in reversed(getattr(self, '_ail', [])):
            return src
        if n.get('inner'):
            return self.expr(n['inner'][0])
        raise Unsupported('OpaqueValueExpr outside an array copy')

    def e_ArrayInitIndexExpr(self, n):
        ail = getattr(self, '_ail', [])
        if not ail:
            raise Unsupported('ArrayInitIndexExpr outside an array copy')
        return ail[-1][2]

    def _array_value_init(self, tgt, fd, core, ind):
        """`T arr[N] {}`: every element value-initialised (class elements: default-constructed)"""
        ts = type_str(fd['type'])
        et = re.sub(r'\[[^\]]*\]', '', ts).strip()
        r = self.ctx.rec_of(et)
        filler = core.get('array_filler')
        elems = [x for x in (core.get('inner', []) or []) if 'kind' in x]
        p = self.ast.parent.get(fd['id'])
        pr = self.ast.recs.get(p.get('id')) if p is not None else None
        bound = None
        if pr is not None:
            self.ctx.need_rec(pr)
            b = self.ctx.array_bounds.get((pr.id, fd['name']))
            if b:
                bound = b[0]
        if bound is None:
            bound = re.search(r'\[(\d+)\]', ts).group(1)
        if r is None:
            if elems and not all(x['kind'] == 'ImplicitValueInitExpr' for x in elems) and not filler:
                raise Unsupported('array initialiser with explicit elements')
            return ind + 'memset(%s, 0, sizeof(%s));%s\n' % (tgt, tgt, self.srcmark(core))
        # class elements: find the element constructor expression (array_filler or first element)
        ctor_e = None
        for cand in (filler or []) + elems:
            if isinstance(cand, dict) and cand.get('kind') in ('CXXConstructExpr', 'InitListExpr', 'ImplicitValueInitExpr'):
                ctor_e = cand
                break
        k = self.newtmp('__i')
        out = ind + '{ uint32_t %s; for (%s = 0; %s < %s; ++%s)\n' % (k, k, k, bound, k)
        out += ind + '/*LOOP-CONTRACT %s#init_%s*/\n' % (self.ctx.fn_cname(self.fn), fd['name'])
        elt = '%s[%s]' % (tgt, k)
        if ctor_e is None or ctor_e['kind'] == 'ImplicitValueInitExpr':
            body = ['memset(&%s, 0, sizeof(%s));' % (elt, elt)]
        elif ctor_e['kind'] == 'CXXConstructExpr':
            body = self.construct_into(elt, ctor_e)
        else:
            body = ['%s = %s;' % (elt, self.expr(ctor_e))]
        pre = self.flush(ind + '\t')
        out += ind + '{\n' + pre + ''.join(ind + '\t' + s + '\n' for s in body) + ind + '} }\n'
        return out
