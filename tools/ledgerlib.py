#!/usr/bin/env python3
"""Assume/guarantee bookkeeping shared by check.py (evidence) and tools/ledger.py.

collect(b, u)      -> per-unit record: the contract enforced on the target, and every callee contract the unit assumes
match(records)     -> for every assumed callee contract: who enforces a contract on the same function, and how the texts compare"""
import os, re, collections


def norm(t):
    return re.sub(r'\s+', ' ', t).strip()


def _split(s):
    out, depth, cur = [], 0, ''
    for ch in s:
        if ch in '([':
            depth += 1
        elif ch in ')]':
            depth -= 1
        if ch == ',' and depth == 0:
            out.append(cur); cur = ''
        else:
            cur += ch
    if cur.strip():
        out.append(cur)
    return out


def clauses(b, cname, for_decl):
    req, ens, asg = set(), set(), set()
    for kind, tag, text in b.contract_text(cname, for_decl):
        t = norm(text)
        if kind == 'requires':
            req.add(t)
        elif kind == 'ensures':
            ens.add(t)
        else:
            m = re.match(r'^__CPROVER_assigns\((.*)\)$', t)
            if m and m.group(1).strip():
                asg |= set(x.strip() for x in _split(m.group(1)))
    return sorted(req), sorted(ens), sorted(asg)


def collect(b, u):
    fi = b.ctx.fn_info
    t = b.target_cname
    rec = {'unit': u['id'], 'bounded': bool(u.get('bounded')), 'enforced': None, 'assumed': []}
    if t in fi:
        c = b.cfg['contracts'].get(t, {})
        req, ens, asg = clauses(b, t, False)
        treq = set(norm('__CPROVER_requires(%s)' % x) for x in c.get('requires_target', []))
        # requires_target entries went through the same placeholder substitution; compare on the substituted text
        req = [r for r in req if 'is_fresh' not in r or r not in treq]
        # bounds on rigid ghost indices (g_q < CAPACITY, ...) choose the instance of a pointwise clause; they are not
        # preconditions a caller has to establish
        ghost_bound = re.compile(r'^__CPROVER_requires\(\(?g_[a-z0-9_]+ (<|<=) [^&|]*\)$')
        rec['enforced'] = {'fn': t, 'key': [os.path.basename(str(fi[t]['file'])), fi[t]['line']],
                           'req': [r for r in req if '__CPROVER_is_fresh' not in r and not ghost_bound.match(r)], 'ens': ens, 'asg': asg}
    for cname, mode in b.ctx.fn_mode.items():
        if mode not in ('contract', 'stub') or cname == t or cname not in b.ctx.fn_decls:
            continue
        info = fi.get(cname)
        if not info:
            continue
        req, _, asg = clauses(b, cname, True)
        _, ens, _ = clauses(b, cname, False)       # without history-variable definitions: nothing to prove for those
        rec['assumed'].append({'fn': cname, 'key': [os.path.basename(str(info['file'])), info['line']], 'owner': str(info.get('owner')), 'mode': mode,
                               'req': [r for r in req if '__CPROVER_is_fresh' not in r], 'ens': ens, 'asg': asg})
    return rec


def match(records):
    """-> (rows, counts); row = dict(unit, callee, status, enforced_by)"""
    enforced = collections.defaultdict(list)
    for r in records:
        e = r.get('enforced')
        if e:
            enforced[tuple(e['key'])].append((r['unit'], set(e['req']), set(e['ens']), set(e['asg']), r['bounded']))
    rows = []
    for r in records:
        for a in r['assumed']:
            owner = a['owner']
            if a['mode'] == 'stub' or not owner.startswith('ffsm2::') or 'LoggerInterfaceT' in owner:
                rows.append({'unit': r['unit'], 'callee': a['fn'], 'status': 'user-code', 'enforced_by': ''}); continue
            cands = [e for e in enforced.get(tuple(a['key']), []) if e[0] != r['unit']]
            if not cands:
                rows.append({'unit': r['unit'], 'callee': a['fn'], 'status': 'not-enforced-in-this-run', 'enforced_by': ''}); continue
            req, ens, asg = set(a['req']), set(a['ens']), set(a['asg'])
            same = [e for e in cands if e[1] <= req and ens <= e[2] and (e[3] <= asg or not e[3])]
            if same:
                rows.append({'unit': r['unit'], 'callee': a['fn'], 'status': 'same', 'enforced_by': ', '.join(sorted(e[0] + (' (bounded)' if e[4] else '') for e in same))})
            else:
                rows.append({'unit': r['unit'], 'callee': a['fn'], 'status': 'instance-or-restated', 'enforced_by': ', '.join(sorted(e[0] for e in cands))})
    return rows, dict(collections.Counter(x['status'] for x in rows))
