#!/usr/bin/env python3
"""Loading and indexing of clang's JSON AST (clang++ -Xclang -ast-dump=json).

Everything here is mechanical bookkeeping: node index, parent links, record
(class / class template specialisation) tables, canonical type names.  No FFSM2
logic lives here.
"""
import json, os, re, subprocess, sys, hashlib

FN_KINDS = ('CXXMethodDecl', 'FunctionDecl', 'CXXConstructorDecl', 'CXXDestructorDecl', 'CXXConversionDecl')
REC_KINDS = ('CXXRecordDecl', 'ClassTemplateSpecializationDecl', 'ClassTemplatePartialSpecializationDecl')


class Unsupported(Exception):
    """Raised for any construct the lowering does not handle: the caller turns it into exit 2."""


def dump_ast(cpp, out_json, include_dirs, defines, std='c++11'):
    cmd = ['clang++', '-std=' + std, '-fsyntax-only', '-Wno-everything']
    for i in include_dirs:
        cmd += ['-I', i]
    for d in defines:
        cmd += ['-D' + d]
    cmd += ['-Xclang', '-ast-dump=json', cpp]
    with open(out_json, 'wb') as f:
        p = subprocess.run(cmd, stdout=f, stderr=subprocess.PIPE)
    if p.returncode != 0:
        raise Unsupported('clang failed on witness %s:\n%s' % (cpp, p.stderr.decode()[-4000:]))
    return out_json


_CHAR_ESC = {'n': 10, 't': 9, 'r': 13, '0': 0, 'a': 7, 'b': 8, 'f': 12, 'v': 11, '\\': 92, "'": 39, '"': 34, '?': 63}


def _char_lit_to_int(m):
    s = m.group(1)
    if s.startswith('\\x'):
        return str(int(s[2:], 16))
    if s.startswith('\\') and len(s) == 2:
        return str(_CHAR_ESC[s[1]])
    if s.startswith('\\'):
        return str(int(s[1:], 8))
    return str(ord(s))


def canon_type(t, keep_top_cv=False):
    """Canonical spelling of a clang type string: integral template arguments as plain
    decimals, no cv-qualifiers, no elaborated keywords, normalised spacing."""
    t = re.sub(r"'((?:\\x[0-9a-fA-F]+)|(?:\\[0-7]{1,3})|(?:\\.)|[^'\\])'", _char_lit_to_int, t)
    t = re.sub(r'\b(\d+)(?:UL|ULL|U|L|LL)\b', r'\1', t)
    t = re.sub(r'\b(struct|class|typename|enum)\b', '', t)
    # cv-qualifiers are dropped at the top level only: inside template argument lists they select a
    # different specialisation (IteratorT<const X> vs IteratorT<X>)
    out, depth, i = [], 0, 0
    for m in re.finditer(r'\b(?:const|volatile)\b|[<>]', t):
        out.append(t[i:m.start()])
        tok = m.group(0)
        if tok == '<':
            depth += 1; out.append(tok)
        elif tok == '>':
            depth -= 1; out.append(tok)
        elif depth > 0 or keep_top_cv:
            out.append(tok + ' ')
        i = m.end()
    out.append(t[i:])
    t = ''.join(out)
    t = re.sub(r'\s+', ' ', t)
    t = re.sub(r'\s*([<>,*&\[\]()])\s*', r'\1', t)
    t = re.sub(r'\bconst\s+', 'const ', t)
    return t.strip()


def split_targs(s):
    """split 'a<b,c>,d' at top-level commas"""
    out, depth, cur = [], 0, ''
    for ch in s:
        if ch in '<([':
            depth += 1
        elif ch in '>)]':
            depth -= 1
        if ch == ',' and depth == 0:
            out.append(cur); cur = ''
        else:
            cur += ch
    if cur != '' or out:
        out.append(cur)
    return out


class Rec:
    def __init__(self, ast, node, qname):
        self.ast = ast
        self.node = node
        self.id = node['id']
        self.name = node.get('name') or ''
        self.qname = qname            # canonical qualified printed name incl. template args
        self.is_spec = node['kind'] == 'ClassTemplateSpecializationDecl'
        self.pattern = None           # pattern CXXRecordDecl node for specialisations of primary templates
        self.targs = []               # list of ('value', int) | ('type', str) | ('pack', [..])
        self.tparams = []             # names of template parameters (from the pattern), parallel to targs
        self.bases = []               # list of (typestring canonical, access)
        self.fields = []              # FieldDecl nodes in order
        self.statics = {}             # name -> VarDecl node
        self.methods = []             # function decl nodes with or without bodies
        self.aliases = {}             # TypeAliasDecl name -> node
        self.in_main_file = False
        self.user_dtor = None

    def __repr__(self):
        return 'Rec(%s)' % self.qname


class AST:
    def __init__(self, path):
        with open(path) as f:
            self.root = json.load(f)
        self.path = path
        self.ids = {}
        self.parent = {}
        self.recs = {}          # id -> Rec
        self.rec_by_qname = {}  # canonical printed name -> Rec
        self.fn_owner = {}      # function decl id -> Rec or None
        self.fn_qname = {}      # function decl id -> qualified name without template args
        self.files = {}         # node id -> file name (resolved)
        self.lines = {}         # node id -> line
        self.templates = {}     # ClassTemplateDecl id -> node
        self._index()

    # ------------------------------------------------------------------ indexing
    def _index(self):
        cur_file = [None]
        cur_line = [None]
        main_file = [None]

        def upd(l):
            # clang delta-encodes file/line across everything it prints, in print order
            if not l:
                return
            if 'spellingLoc' in l or 'expansionLoc' in l:
                upd(l.get('spellingLoc')); upd(l.get('expansionLoc'))
                return
            if 'file' in l:
                cur_file[0] = l['file']
            if 'line' in l:
                cur_line[0] = l['line']

        def track_loc(n):
            here = None
            if 'loc' in n:
                upd(n['loc']); here = (cur_file[0], cur_line[0])
            rng = n.get('range')
            if rng:
                upd(rng.get('begin'))
                if here is None:
                    here = (cur_file[0], cur_line[0])
                upd(rng.get('end'))
            return here

        def walk(n, p, nspath, rec):
            if not isinstance(n, dict):
                return
            here = track_loc(n)
            nid = n.get('id')
            k = n.get('kind')
            if nid is not None:
                prev = self.ids.get(nid)
                # clang prints a declaration in full once and as a short reference elsewhere: keep the full one
                decl_ctx = p is not None and p.get('kind') in ('ClassTemplateDecl', 'FunctionTemplateDecl', 'ClassTemplatePartialSpecializationDecl', 'TypeAliasTemplateDecl')
                prev_p = self.parent.get(nid)
                if prev is None or (len(n) > len(prev) and 'inner' in n and 'inner' not in prev) or \
                        (k is not None and k.endswith('ParmDecl') and decl_ctx and (prev_p is None or prev_p.get('kind') not in ('ClassTemplateDecl', 'FunctionTemplateDecl', 'ClassTemplatePartialSpecializationDecl'))):
                    self.ids[nid] = n
                    self.parent[nid] = p
                    self.files[nid] = here[0] if here else cur_file[0]
                    self.lines[nid] = here[1] if here else cur_line[0]
            new_ns, new_rec = nspath, rec
            if k == 'NamespaceDecl':
                new_ns = nspath + [n.get('name', '')]
            elif k in REC_KINDS and n.get('completeDefinition') and not n.get('isImplicit'):
                is_pattern = k == 'CXXRecordDecl' and p is not None and p.get('kind') == 'ClassTemplateDecl'
                is_partial = k == 'ClassTemplatePartialSpecializationDecl'
                if not is_pattern and not is_partial and not self._dependent_ctx(self.parent.get(p.get('id')) if (p is not None and k == 'ClassTemplateSpecializationDecl' and p.get('kind') == 'ClassTemplateDecl') else p):
                    q = self._rec_qname(n, nspath, rec)
                    r = Rec(self, n, q)
                    r.in_main_file = not (n.get('loc', {}).get('includedFrom') or (n.get('range', {}).get('begin', {}).get('includedFrom')))
                    self.recs[nid] = r
                    if q not in self.rec_by_qname:
                        self.rec_by_qname[q] = r
                    new_rec = r
                    new_ns = nspath
                elif is_pattern or is_partial:
                    new_rec = None
            if k == 'ClassTemplateDecl' and nid is not None:
                self.templates[nid] = n
            if k in FN_KINDS and nid is not None:
                self.fn_owner[nid] = rec
                self.fn_qname[nid] = '::'.join(nspath + ([rec.qname_nons] if rec is not None and hasattr(rec, 'qname_nons') else []) + [n.get('name', '')])
            for c in n.get('inner', []) or []:
                walk(c, n, new_ns, new_rec)

        walk(self.root, None, [], None)
        # out-of-line definitions of members of non-template classes sit at namespace scope: their
        # semantic parent is given by parentDeclContextId
        for fid, owner in list(self.fn_owner.items()):
            if owner is None:
                n = self.ids.get(fid)
                pc = n.get('parentDeclContextId') if n else None
                if pc and pc in self.recs:
                    self.fn_owner[fid] = self.recs[pc]
        for r in self.recs.values():
            self._fill_rec(r)

    def _dependent_ctx(self, p):
        # records nested inside an (uninstantiated) class template pattern are dependent: skip
        while p is not None:
            k = p.get('kind')
            if k == 'ClassTemplateDecl' or k == 'ClassTemplatePartialSpecializationDecl' or k == 'FunctionTemplateDecl':
                return True
            if k == 'ClassTemplateSpecializationDecl':
                return False
            pid = p.get('id')
            p = self.parent.get(pid) if pid else None
        return False

    def _targ_strings(self, n):
        out = []
        for c in n.get('inner', []) or []:
            if c.get('kind') != 'TemplateArgument':
                continue
            out.append(self._targ(c))
        return out

    def _targ(self, c):
        if 'value' in c:
            v = int(c['value'])
            # clang's JSON prints unsigned char arguments >= 128 as negative numbers while type strings
            # spell them as character literals: normalise to 0..255
            if -128 <= v < 0:
                v += 256
            return ('value', v)
        if 'type' in c:
            return ('type', canon_type(c['type'].get('desugaredQualType') or c['type']['qualType'], keep_top_cv=True))
        if c.get('isPack') or c.get('isPack') is not None:
            return ('pack', [self._targ(x) for x in c.get('inner', []) or [] if x.get('kind') == 'TemplateArgument'])
        # empty pack is printed as a TemplateArgument without payload
        if 'inner' not in c:
            return ('pack', [])
        subs = [x for x in c.get('inner', []) if x.get('kind') == 'TemplateArgument']
        if subs:
            return ('pack', [self._targ(x) for x in subs])
        if 'isExpr' in c or c.get('isExpr'):
            return ('expr', None)
        return ('other', None)

    @staticmethod
    def _targ_print(t):
        k, v = t
        if k == 'value':
            return [str(v)]
        if k == 'type':
            return [v]
        if k == 'pack':
            out = []
            for x in v:
                out += AST._targ_print(x)
            return out
        return ['?']

    def _rec_qname(self, n, nspath, outer):
        name = n.get('name') or ('anon_%s' % n['id'])
        if n['kind'] == 'ClassTemplateSpecializationDecl':
            parts = []
            for t in self._targ_strings(n):
                parts += self._targ_print(t)
            name = '%s<%s>' % (name, ','.join(parts))
        if outer is not None:
            return outer.qname + '::' + name
        return '::'.join(nspath + [name])

    def _fill_rec(self, r):
        n = r.node
        r.qname_nons = r.qname
        if r.is_spec:
            r.targs = self._targ_strings(n)
            p = self._template_definition(r.name)
            if p is not None:
                cands = [c for c in p.get('inner', []) if c.get('kind') == 'CXXRecordDecl']
                r.pattern = cands[0] if cands else None
                r.tparams = [c.get('name', '') for c in p.get('inner', []) if c.get('kind') in
                             ('NonTypeTemplateParmDecl', 'TemplateTypeParmDecl', 'TemplateTemplateParmDecl')]
            # specialisations of partial specialisations share the source range of their pattern
            rb = (n.get('range') or {}).get('begin', {}).get('offset')
            for t in self.ids.values():
                if t.get('kind') == 'ClassTemplatePartialSpecializationDecl' and t.get('name') == r.name \
                        and (t.get('range') or {}).get('begin', {}).get('offset') == rb and self.files.get(t['id']) == self.files.get(r.id):
                    r.pattern = t
                    r.tparams = [c.get('name', '') for c in t.get('inner', []) if c.get('kind') in
                                 ('NonTypeTemplateParmDecl', 'TemplateTypeParmDecl', 'TemplateTemplateParmDecl')]
                    break
        for b in n.get('bases', []) or []:
            t = b['type']
            r.bases.append(canon_type(t.get('desugaredQualType') or t['qualType']))
        for c in n.get('inner', []) or []:
            k = c.get('kind')
            if k == 'FieldDecl':
                r.fields.append(c)
            elif k == 'VarDecl' and c.get('storageClass') == 'static':
                r.statics[c['name']] = c
            elif k in FN_KINDS:
                r.methods.append(c)
                if k == 'CXXDestructorDecl' and not c.get('isImplicit') and self.body_of(c) is not None:
                    r.user_dtor = c
            elif k == 'FunctionTemplateDecl':
                for s in c.get('inner', []) or []:
                    if s.get('kind') in FN_KINDS and self.body_of(s) is not None and self._has_targs(s):
                        r.methods.append(s)
            elif k in ('TypeAliasDecl', 'TypedefDecl'):
                r.aliases[c['name']] = c

    def _template_definition(self, name):
        """the ClassTemplateDecl (re)declaration of `name` that carries the definition of the primary template"""
        if not hasattr(self, '_tdefs'):
            self._tdefs = {}
            for t in self.templates.values():
                for c in t.get('inner', []) or []:
                    if c.get('kind') == 'CXXRecordDecl' and c.get('completeDefinition'):
                        self._tdefs.setdefault(t.get('name'), t)
        return self._tdefs.get(name)

    @staticmethod
    def _has_targs(fn):
        return any(c.get('kind') == 'TemplateArgument' for c in fn.get('inner', []) or [])

    # ------------------------------------------------------------------ helpers
    @staticmethod
    def body_of(fn):
        for c in fn.get('inner', []) or []:
            if c.get('kind') == 'CompoundStmt':
                return c
        return None

    def definition_of(self, fn):
        """follow previousDecl / find the redeclaration that has a body"""
        if self.body_of(fn) is not None:
            return fn
        # out-of-line definitions refer back with previousDecl; search siblings by name under the same parent
        fid = fn['id']
        for n in self.ids.values():
            if n.get('kind') == fn.get('kind') and n.get('previousDecl') == fid and self.body_of(n) is not None:
                return n
        return fn

    def rec_of_type(self, tstr):
        return self.rec_by_qname.get(canon_type(tstr))

    def params(self, fn):
        return [c for c in fn.get('inner', []) or [] if c.get('kind') == 'ParmVarDecl']

    def fn_targs(self, fn):
        return [self._targ(c) for c in fn.get('inner', []) or [] if c.get('kind') == 'TemplateArgument']

    def src(self, node):
        nid = node.get('id')
        f = self.files.get(nid)
        l = self.lines.get(nid)
        return f, l

    def free_functions(self, name):
        out = []
        for n in self.ids.values():
            if n.get('kind') == 'FunctionDecl' and n.get('name') == name and self.body_of(n) is not None:
                if self.fn_owner.get(n['id']) is None and not self._dependent_ctx_fn(n):
                    out.append(n)
        return out

    def _dependent_ctx_fn(self, fn):
        p = self.parent.get(fn['id'])
        if p is not None and p.get('kind') == 'FunctionTemplateDecl':
            return not self._has_targs(fn)
        return False


def type_str(tnode):
    return tnode.get('desugaredQualType') or tnode.get('qualType')
