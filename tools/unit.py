#!/usr/bin/env python3
"""Assemble one verification unit (a C translation unit for CBMC) from a lowered function, the
sidecar contracts and the symbolic-constant environment; run goto-cc / goto-instrument / cbmc on it
and parse the per-obligation results."""
import json, os, re, subprocess, sys, time, hashlib, resource
from cxxast import AST, Unsupported, canon_type
from cxx2c import Ctx, FnLower, sanitize, INT_RANGE

PRELUDE = r'''
#include <stdint.h>
#include <stddef.h>
#include <string.h>
/* logical bound obligation for arrays whose extent is a symbolic constant */
static inline uint32_t __idx(uint32_t i, uint32_t n) { __CPROVER_assert(i < n, "array bound: index below the declared extent"); return i; }
'''


class Undecided(Exception):
    pass


def find_target(ast, sel):
    """sel: dict(cls=regex|None, name=str, nparams=int|None, const=bool|None, sig=regex|None, kind=str|None, targs=regex|None)"""
    hits = []
    if sel.get('cls') is None:
        for fn in ast.free_functions(sel['name']):
            hits.append(fn)
    else:
        for r in ast.recs.values():
            if not re.search(sel['cls'], r.qname):
                continue
            for m in r.methods:
                name = m.get('name')
                if sel.get('kind') == 'ctor':
                    if m['kind'] != 'CXXConstructorDecl':
                        continue
                elif sel.get('kind') == 'dtor':
                    if m['kind'] != 'CXXDestructorDecl':
                        continue
                elif name != sel['name']:
                    continue
                hits.append(m)
    out = []
    for m in hits:
        d = ast.definition_of(m)
        if ast.body_of(d) is None and not sel.get('allow_bodyless'):
            continue
        if sel.get('nparams') is not None and len(ast.params(d)) != sel['nparams']:
            continue
        q = d.get('type', {}).get('qualType', '')
        if sel.get('const') is not None and bool(re.search(r'\)\s*const', q)) != sel['const']:
            continue
        if sel.get('sig') and not re.search(sel['sig'], q):
            continue
        if sel.get('targs') is not None:
            ta = ','.join(x for t in ast.fn_targs(d) for x in AST._targ_print(t))
            if not re.search(sel['targs'], ta):
                continue
        if d not in out:
            out.append(d)
    return out


def _ids(expr):
    return set(re.findall(r'[A-Za-z_][A-Za-z0-9_]*', expr))


class UnitBuild:
    def __init__(self, ast, cfg):
        self.ast = ast
        self.cfg = cfg
        self.ctx = Ctx(ast, cfg)
        self.lines_meta = {}     # gen line -> dict(kind, fn, tag, text)
        self.target_cname = None
        self.notes = []

    def build(self):
        cfg = self.cfg
        ctx = self.ctx
        # fix aliases early for records named in the spec
        for alias, pat in cfg.get('recs', {}).items():
            cands = [r for r in self.ast.recs.values() if re.search(pat, r.qname)]
            if not cands:
                # not instantiated by this witness: harmless unless a contract mentions it (then the C does not compile -> exit 2)
                self.notes.append('record alias %s matches no record of the witness' % alias)
                continue
            pick = cfg.get('rec_pick', {}).get(alias, 0)
            ctx.rec_alias[cands[pick].id] = alias
        if cfg['target'].get('ghost'):
            # lemma unit: the function under contract is ghost C text from the spec (a consequence of
            # the callee contracts); the real functions it calls are listed under 'also'
            self.target = None
            self.target_cname = cfg['target']['ghost']
            for sel in cfg.get('also', []):
                ts = find_target(self.ast, sel)
                if not ts:
                    raise Unsupported('extra function not found: %r' % (sel,))
                t = ts[sel.get('pick', 0)]
                cn = ctx.fn_cname(t)
                ctx.fn_mode[cn] = sel.get('mode', ctx.call_mode(t))
                ctx.fn_queue.append(t)
            ctx.lower_all()
            self._need_consts()
            return self.render()
        if cfg.get('ast_check'):
            try:
                self.notes += cfg['ast_check'](self.ast)
            except Unsupported:
                raise
            except Exception as e:
                raise Unsupported('witness structure check failed: %s' % e)
        targets = find_target(self.ast, cfg['target'])
        if not targets:
            raise Unsupported('target function not found: %r' % (cfg['target'],))
        pick = cfg['target'].get('pick', 0)
        if len(targets) > 1 and 'pick' not in cfg['target']:
            # several instantiations (e.g. the same method of two specialisations): require that the
            # selection is made explicit unless they belong to the same record alias
            owners = set(self.ast.fn_owner.get(t['id']).id if self.ast.fn_owner.get(t['id']) else None for t in targets)
            if len(owners) > 1 or len(targets) > 1:
                self.notes.append('%d candidates for target, taking the first' % len(targets))
        fn = targets[pick]
        self.target = fn
        cname = ctx.fn_cname(fn)
        self.target_cname = cname
        ctx.fn_mode[cname] = 'body'
        ctx.fn_queue.append(fn)
        # extra functions requested by the spec (e.g. lemma harness callees)
        for sel in cfg.get('also', []):
            ts = find_target(self.ast, sel)
            if not ts:
                raise Unsupported('extra function not found: %r' % (sel,))
            t = ts[sel.get('pick', 0)]
            cn = ctx.fn_cname(t)
            ctx.fn_mode[cn] = sel.get('mode', ctx.call_mode(t))
            ctx.fn_queue.append(t)
        # '@re:<regex>' keys name a callee by pattern (long template-argument suffixes)
        pend = [k for k in cfg.get('contracts', {}) if k.startswith('@re:')]
        if pend:
            cfg = self.cfg = dict(cfg, contracts=dict(cfg['contracts']))
            ctx.cfg = cfg
            self._pending_re = {k[4:]: cfg['contracts'].pop(k) for k in pend}
        if '@target' in cfg.get('contracts', {}):
            # the spec may key the target's contract by '@target' (overload suffixes depend on what the witness instantiates)
            cfg = self.cfg = dict(cfg, contracts=dict(cfg['contracts']))
            cfg['contracts'][cname] = cfg['contracts'].pop('@target')
            ctx.cfg = cfg
        ctx.lower_all()
        for pat, cc in getattr(self, '_pending_re', {}).items():
            hits = [n for n in ctx.fn_decls if re.search(pat, n)]
            if len(hits) != 1:
                raise Unsupported('contract pattern %s matches %d lowered functions' % (pat, len(hits)))
            self.cfg['contracts'][hits[0]] = cc
        self._need_consts()
        return self.render()

    def _need_consts(self):
        # constants the contracts mention although the lowered bodies do not
        cfg, ctx = self.cfg, self.ctx
        for spec in cfg.get('need_consts', []):
            alias, name = spec.split('.')
            rid = [i for i, a in ctx.rec_alias.items() if a == alias]
            if not rid:
                raise Unsupported('need_consts: unknown record alias %s' % alias)
            r = self.ast.recs[rid[0]]
            if name not in r.statics:
                raise Unsupported('need_consts: %s has no static member %s' % (r.qname, name))
            ctx.need_rec(r)
            ctx.const_ref(r, r.statics[name])
        ctx.lower_all()      # functions used only by constant initialisers (bitWidth, contain, ...)

    # ------------------------------------------------------------------ rendering
    def contract_text(self, cname, for_decl):
        c = self.cfg.get('contracts', {}).get(cname)
        if c is None:
            return []
        params = (self.ctx.fn_info.get(cname) or {}).get('params', [])

        def sub(txt):
            # {p0}, {p1}, {p-1}: name of the n-th lowered parameter (the library leaves some parameters unnamed)
            def rep(m):
                i = int(m.group(1))
                try:
                    return params[i]
                except IndexError:
                    raise Unsupported('contract of %s refers to parameter %d but the function has %d' % (cname, i, len(params)))
            txt = re.sub(r'\{p(-?\d+)\}', rep, txt)
            isptr = (self.ctx.fn_info.get(cname) or {}).get('param_is_ptr', {})
            # {ptr:x}: address of the object parameter x denotes (x itself when it is passed by reference/pointer,
            # the address of the callee's own copy when the code passes it by value); {fresh:x}: is_fresh for pointer parameters
            txt = re.sub(r'\{ptr:(\w+)\}', lambda m: m.group(1) if isptr.get(m.group(1), True) else '(&%s)' % m.group(1), txt)
            txt = re.sub(r'\{fresh:(\w+)\}', lambda m: ('__CPROVER_is_fresh(%s, sizeof(*%s))' % (m.group(1), m.group(1))) if isptr.get(m.group(1), True) else '1', txt)
            return txt
        c = dict(c)
        for k in ('requires', 'requires_target', 'assigns'):
            if c.get(k) is not None:
                c[k] = [sub(x) for x in c[k]]
        c['ensures'] = [(e[0], sub(e[1])) if isinstance(e, tuple) else sub(e) for e in c.get('ensures', [])]
        out = []
        if not for_decl:
            # pointer-validity preconditions that only make sense when the function is the one under verification
            for r in c.get('requires_target', []):
                out.append(('requires', None, '__CPROVER_requires(%s)' % r))
        for r in c.get('requires', []):
            out.append(('requires', None, '__CPROVER_requires(%s)' % r))
        if c.get('assigns') is not None:
            a = list(c['assigns']) + ([sub(x) for x in c.get('assigns_callee', [])] if for_decl else [])
            out.append(('assigns', None, '__CPROVER_assigns(%s)' % ', '.join(a)))
        ens = list(c.get('ensures', []))
        asg = c.get('assigns')
        if for_decl:
            # history-variable definitions: clauses that *define* ghost variables in terms of the call's result; they are
            # part of the callee's contract as seen by callers and have nothing to prove in the callee itself
            ens += [(e[0], sub(e[1])) if isinstance(e, tuple) else sub(e) for e in c.get('ensures_callee', [])]
        for e in ens:
            tag, text = (e if isinstance(e, tuple) else (None, e))
            out.append(('ensures', tag, '__CPROVER_ensures(%s)' % text))
        return out

    def render_without_loop_contracts(self):
        """the same unit with every loop contract removed (for the bounded fall-back, see verify()); None if it has none"""
        if not any(c.get('loops') for n, c in self.cfg.get('contracts', {}).items() if n in self.ctx.fn_bodies):
            return None, None
        keep = self.lines_meta
        self.lines_meta = {}
        self.strip_loops = True
        try:
            txt = self.render()
            return txt, self.lines_meta
        finally:
            self.strip_loops = False
            self.lines_meta = keep

    def render(self):
        ctx = self.ctx
        cfg = self.cfg
        L = []

        def emit(s, meta=None):
            for ln in s.split('\n'):
                L.append(ln)
                if meta:
                    self.lines_meta[len(L)] = meta

        emit(PRELUDE)
        for name, txt in ctx.enum_defs.items():
            emit(txt)
        for r in ctx.rec_order:
            emit('struct %s;' % ctx.rec_cname(r))
        for r in ctx.rec_order:
            emit(ctx.rec_defs[r.id])
        # symbolic constants
        emit('/* symbolic constants (static constexpr members / template parameters) */')
        for cn in ctx.const_order:
            info = ctx.consts[cn]
            emit('%s %s;' % (info['ctype'], cn))
        # ghost state and helper text from the spec
        for g in cfg.get('ghost', []):
            emit(g)
        # prototypes (with contracts for contract/stub mode)
        for cname, sig in ctx.fn_decls.items():
            mode = ctx.fn_mode.get(cname, 'body')
            if mode in ('contract', 'stub'):
                emit(sig)
                ct = self.contract_text(cname, True)
                if not ct and mode == 'contract' and not cfg.get('draft'):
                    raise Unsupported('callee %s is to be replaced by its contract but the spec has none' % cname)
                for kind, tag, text in ct:
                    emit(text, {'kind': kind, 'fn': cname, 'tag': tag, 'text': text, 'role': 'callee'})
                emit(';')
            else:
                emit(sig + ';')
        emit(self.init_consts())
        for gname, g in cfg.get('ghost_fns', {}).items():
            emit(g['sig'])
            for kind, tag, text in self.contract_text(gname, False):
                emit(text, {'kind': kind, 'fn': gname, 'tag': tag, 'text': text, 'role': 'target'})
            emit(g['body'])
            ctx.fn_decls.setdefault(gname, g['sig'])
        # bodies
        for cname, body in ctx.fn_bodies.items():
            info = ctx.fn_info[cname]
            emit('/* %s::%s  %s  [%s:%s] */' % (info['owner'], info['name'], info['qualtype'], os.path.basename(str(info['file'])), info['line']))
            emit(ctx.fn_decls[cname])
            if cname == self.target_cname or cname in cfg.get('contract_on_body', []):
                for kind, tag, text in self.contract_text(cname, False):
                    emit(text, {'kind': kind, 'fn': cname, 'tag': tag, 'text': text, 'role': 'target'})
            body = self.inject_loops(cname, body)
            emit(body)
        for cname, cc in cfg.get('contracts', {}).items():
            if cname not in ctx.fn_decls and not cc.get('optional'):
                # a callee the code no longer calls: its contract is simply unused (the target's own postconditions decide whether
                # the function still does its job); noted, because on the unchanged tree it would be a typo in the spec
                self.notes.append('contract for %s unused: the lowered code of this unit does not call such a function' % cname)
        if self.target_cname not in cfg.get('contracts', {}) and not cfg.get('harness') and not cfg.get('draft'):
            raise Unsupported('target %s has no contract in the spec' % self.target_cname)
        emit(self.harness())
        return '\n'.join(L) + '\n'

    def inject_loops(self, cname, body):
        loops = {} if getattr(self, 'strip_loops', False) else self.cfg.get('contracts', {}).get(cname, {}).get('loops', {})

        def rep(m):
            key = m.group(2)
            try:
                k = int(key)
            except ValueError:
                k = key
            lc = loops.get(k)
            if not lc:
                return '/* loop %s#%s: no contract */' % (m.group(1), key)
            out = []
            if lc.get('assigns') is not None:
                out.append('__CPROVER_assigns(%s)' % ', '.join(lc['assigns']))
            for inv in lc.get('invariant', []):
                out.append('__CPROVER_loop_invariant(%s)' % inv)
            if lc.get('decreases'):
                out.append('__CPROVER_decreases(%s)' % lc['decreases'])
            return '\n'.join(out)
        return re.sub(r'/\*LOOP-CONTRACT ([A-Za-z0-9_]+)#([A-Za-z0-9_]+)\*/', rep, body)

    def init_consts(self, native=False):
        """native=True: the same definitions with every free leaf fixed to the value the witness instantiates (for the
        native cross-check of bindings and lowered initialisers, see native_const_check)"""
        ctx = self.ctx
        cfg = self.cfg
        cenv = cfg.get('consts', {})
        stm = {}
        deps = {}
        for cn in ctx.const_order:
            info = ctx.consts[cn]
            if info['kind'] == 'leaf':
                b = cenv.get(cn)
                if b is None:
                    # sizeof...(pack) spelled with the pack name of an out-of-line definition (TS_ for TStates): a record of this
                    # library has one parameter pack, so it is the constant the unit binds under the in-class name -- both names,
                    # if both occur, denote the same number (checked against the witness value by the native cross-check)
                    m = re.match(r'^(.*__sizeof_)\w+$', cn)
                    sib = [k for k in cenv if m and k.startswith(m.group(1)) and k != cn]
                    if len(sib) == 1:
                        b = ('expr', sib[0]) if sib[0] in ctx.consts else cenv[sib[0]]
                        self.notes.append('%s: pack size under another parameter name, bound like %s' % (cn, sib[0]))
                if b is None:
                    raise Unsupported('unbound symbolic constant %s (concrete value in witness: %s); add it to the unit\'s consts' % (cn, info.get('concrete')))
                if b[0] == 'range' and native:
                    if info.get('concrete') is None:
                        raise Unsupported('leaf constant %s has no concrete value in the witness' % cn)
                    stm[cn] = '%s = (%s)(%s);' % (cn, info['ctype'], info['concrete'])
                    deps[cn] = set()
                elif b[0] == 'range':
                    lo, hi = b[1], b[2]
                    stm[cn] = '{ %s __v; __CPROVER_assume(__v >= %s && __v <= %s); %s = __v; }' % (info['ctype'], lo, hi, cn)
                    deps[cn] = set()
                    if info.get('concrete') is not None and not (lo <= info['concrete'] <= hi):
                        if not cfg.get('bounded'):
                            raise Unsupported('witness value %s of %s outside the declared range' % (info['concrete'], cn))
                        self.notes.append('bounded unit: %s restricted to %s..%s (the witness instantiates %s)' % (cn, lo, hi, info['concrete']))
                elif b[0] == 'expr':
                    stm[cn] = '%s = (%s)(%s);' % (cn, info['ctype'], b[1])
                    deps[cn] = _ids(b[1]) & set(ctx.const_order)
                elif b[0] == 'value':
                    stm[cn] = '%s = (%s)(%s);' % (cn, info['ctype'], b[1])
                    deps[cn] = set()
                    if info.get('concrete') is not None and int(b[1]) != info['concrete']:
                        raise Unsupported('constant %s fixed to %s but witness has %s' % (cn, b[1], info['concrete']))
                else:
                    raise Unsupported('bad const binding for %s' % cn)
            else:
                stm[cn] = '%s = (%s)(%s);' % (cn, info['ctype'], info['init'])
                deps[cn] = _ids(info['init']) & set(ctx.const_order)
        # topological order
        order, done = [], set()

        def visit(c, stack=()):
            if c in done:
                return
            if c in stack:
                raise Unsupported('cyclic constant definitions at %s' % c)
            for d in sorted(deps[c]):
                visit(d, stack + (c,))
            done.add(c); order.append(c)
        for cn in ctx.const_order:
            visit(cn)
        out = 'void %s(void)\n{\n' % ('init_consts_native' if native else 'init_consts')
        for cn in order:
            out += '\t' + stm[cn] + '\n'
        for i, a in enumerate(cenv.get('__assume__', [])):
            out += ('\tprintf("assume %d %%d\\n", (int)(%s));\n' % (i, a)) if native else ('\t__CPROVER_assume(%s);\n' % a)
        out += '}\n'
        return out

    NATIVE_DEFS = ['-D__CPROVER_requires(...)=', '-D__CPROVER_ensures(...)=', '-D__CPROVER_assigns(...)=', '-D__CPROVER_loop_invariant(...)=',
                   '-D__CPROVER_decreases(...)=', '-D__CPROVER_assume(...)=((void)0)', '-D__CPROVER_assert(...)=((void)0)']

    def native_const_spec(self, txt):
        """Program and expectations for the native cross-check of the symbolic constants: the generated unit compiled natively with
        every free leaf constant fixed to the witness' value; every constant clang evaluated for the instantiation must come out the
        same.  This checks (a) every binding 'leaf := expr' of the spec, (b) the lowering of the constant initialisers
        (bitWidth, contain, ...), on the witness.  Run by run_native_const_check (in the parallel verify stage)."""
        ctx = self.ctx
        if not ctx.const_order:
            return None
        prog = '#include <stdio.h>\n' + txt + '\n' + self.init_consts(native=True) + '\nint main(void)\n{\n\tinit_consts_native();\n'
        for cn in ctx.const_order:
            prog += '\tprintf("%s %%lld\\n", (long long)%s);\n' % (cn, cn)
        prog += '\treturn 0;\n}\n'
        cenv = self.cfg.get('consts', {})
        expect = []
        for cn in ctx.const_order:
            want = ctx.consts[cn].get('concrete')
            b = cenv.get(cn)
            what = ('binding %s := %s' % (cn, b[1])) if b and b[0] == 'expr' else ('lowered initialiser of %s' % cn)
            expect.append((cn, None if want is None else int(want), what))
        return {'prog': prog, 'expect': expect, 'assumes': list(cenv.get('__assume__', [])), 'bounded': bool(self.cfg.get('bounded'))}

    def check_binding(self, cn, expr):
        """the binding leaf := expr must hold for the concrete values of this witness"""
        ctx = self.ctx
        env = {}
        for c, info in ctx.consts.items():
            if info.get('concrete') is not None:
                env[c] = info['concrete']
        want = ctx.consts[cn].get('concrete')
        if want is None:
            return
        try:
            pyexpr = re.sub(r'/', '//', expr)
            got = eval(pyexpr, {'__builtins__': {}}, env)
        except Exception as e:
            self.notes.append('binding %s := %s not checkable on the witness (%s)' % (cn, expr, e))
            return
        if int(got) != int(want):
            raise Unsupported('binding %s := %s evaluates to %s on the witness but the instantiation has %s' % (cn, expr, got, want))
        self.notes.append('binding %s := %s agrees with the witness (%s)' % (cn, expr, want))

    def harness(self):
        ctx = self.ctx
        cfg = self.cfg
        if cfg.get('harness'):
            return cfg['harness']
        sig = ctx.fn_decls[self.target_cname]
        m = re.match(r'^(.*?)\s*([A-Za-z_][A-Za-z0-9_]*)\((.*)\)$', sig, re.S)
        params = m.group(3).strip()
        decls, args = [], []
        if params != 'void':
            for i, p in enumerate(self._split_params(params)):
                pm = re.match(r'^(.*?)([A-Za-z_][A-Za-z0-9_]*)((?:\[[^\]]*\])*)$', p.strip())
                decls.append('\t%s h_%s%s;' % (pm.group(1), pm.group(2), pm.group(3)))
                args.append('h_' + pm.group(2))
        out = 'void harness(void)\n{\n\tinit_consts();\n'
        for h in cfg.get('harness_pre', []):
            out += '\t' + h + '\n'
        out += '\n'.join(decls) + ('\n' if decls else '')
        out += '\t%s(%s);\n' % (self.target_cname, ', '.join(args))
        out += '\t__CPROVER_assert(0, "canary: end of harness reachable (contract not vacuous)");\n}\n'
        return out

    @staticmethod
    def _split_params(s):
        out, depth, cur = [], 0, ''
        for ch in s:
            if ch in '([':
                depth += 1
            elif ch in ')]':
                depth -= 1
            if ch == ',' and depth == 0:
                out.append(cur); cur = ''
            else:
                cur += ch
        if cur.strip():
            out.append(cur)
        return out


# ---------------------------------------------------------------------- running CBMC
def _limits(mem_gb):
    def f():
        b = int(mem_gb * (1 << 30))
        resource.setrlimit(resource.RLIMIT_AS, (b, b))
    return f


def run(cmd, timeout, mem_gb=6, cwd=None):
    t0 = time.time()
    try:
        p = subprocess.run(cmd, stdout=subprocess.PIPE, stderr=subprocess.PIPE, timeout=timeout, cwd=cwd, preexec_fn=_limits(mem_gb))
        return p.returncode, p.stdout.decode(errors='replace'), p.stderr.decode(errors='replace'), time.time() - t0
    except subprocess.TimeoutExpired as e:
        return 'timeout', (e.stdout or b'').decode(errors='replace'), (e.stderr or b'').decode(errors='replace'), time.time() - t0


def run_native_const_check(spec, base):
    """returns (error or None, note)"""
    NATIVE_DEFS = UnitBuild.NATIVE_DEFS
    with open(base + '.c', 'w') as f:
        f.write(spec['prog'])
    try:
        p = subprocess.run(['gcc', '-O0', '-w', '-std=gnu11'] + NATIVE_DEFS + ['-ffunction-sections', '-fdata-sections', '-Wl,--gc-sections', base + '.c', '-o', base + '.exe'],
                           stdout=subprocess.PIPE, stderr=subprocess.STDOUT, timeout=120)
        if p.returncode != 0:
            return 'native constant check: generated C does not compile natively\n' + p.stdout.decode(errors='replace')[-1500:], None
        q = subprocess.run([base + '.exe'], stdout=subprocess.PIPE, stderr=subprocess.STDOUT, timeout=20)
        if q.returncode != 0:
            return 'native constant check: evaluation crashed (rc=%s)' % q.returncode, None
    finally:
        for ext in ('.c', '.exe'):
            try:
                os.unlink(base + ext)
            except OSError:
                pass
    vals, assumes = {}, {}
    for ln in q.stdout.decode().splitlines():
        a = ln.split()
        if a[0] == 'assume':
            assumes[int(a[1])] = int(a[2])
        else:
            vals[a[0]] = int(a[1])
    n = 0
    notes = []
    for cn, want, what in spec['expect']:
        if want is None:
            continue
        n += 1
        if vals.get(cn) != want:
            return '%s evaluates to %s on the witness but the instantiation has %s' % (what, vals.get(cn), want), None
    for i, a in enumerate(spec['assumes']):
        if not assumes.get(i):
            if not spec['bounded']:
                return 'assumption on the constants does not hold for the witness: %s' % a, None
            notes.append('bounded unit: the witness lies outside the assumption %s' % a)
    notes.append('constants: %d of %d symbolic constants agree natively with the witness instantiation (bindings and lowered initialisers)' % (n, len(spec['expect'])))
    return None, '; '.join(notes)


CBMC_CHECKS = ['--bounds-check', '--pointer-check', '--pointer-overflow-check', '--signed-overflow-check',
               '--undefined-shift-check', '--div-by-zero-check']


def _lowered_loops(b_gb, names):
    """loops of the instrumented program that belong to lowered functions (not to the contract library)"""
    rc, out, err, dt = run(['cbmc', '--show-loops', b_gb], 60)
    res = []
    for fn, idx in re.findall(r'^Loop ([A-Za-z0-9_$]+)\.(\d+):', out or '', re.M):
        base = fn[:-len('_wrapped_for_contract_checking')] if fn.endswith('_wrapped_for_contract_checking') else fn
        if base in names:
            res.append('%s.%s' % (fn, idx))
    return res


def bounded_fallback(cfile_nl, workdir, cfg, target_cname, build):
    """The unit with its loop contracts removed, every loop of the lowered code unwound K times with unwinding assertions.
    Used only when the loop contracts no longer fit the code (do not compile, or fail): tells a contract that went stale
    from code that breaks the function's postconditions.  Returns dict(ok, failed=[...], complete, n, k, reason)."""
    k = int(cfg.get('fallback_unwind', 34))
    base = os.path.join(workdir, os.path.splitext(os.path.basename(cfile_nl))[0])
    a_gb, b_gb = base + '.a.gb', base + '.b.gb'
    out = {'ok': False, 'failed': [], 'complete': False, 'n': 0, 'k': k, 'reason': None, 'time': 0.0}
    rc, o, e, dt = run(['goto-cc', '--function', 'harness', cfile_nl, '-o', a_gb], 120); out['time'] += dt
    if rc != 0:
        out['reason'] = 'generated C does not compile even without loop contracts'; return out
    ctx = build.ctx
    cmd = ['goto-instrument', '--dfcc', 'harness', '--enforce-contract', target_cname]
    for cname, mode in ctx.fn_mode.items():
        if mode in ('contract', 'stub') and cname in ctx.fn_decls:
            cmd += ['--replace-call-with-contract', cname]
    rc, o, e, dt = run(cmd + [a_gb, b_gb], 300); out['time'] += dt
    if rc != 0:
        out['reason'] = 'goto-instrument failed on the loop-contract-free unit'; return out
    names = set(getattr(ctx, 'fn_bodies_names', [])) | set(cfg.get('ghost_fns', {}).keys())
    cmd = ['cbmc', b_gb] + CBMC_CHECKS + ['--json-ui', '--trace', '--unwinding-assertions']
    given = dict(cfg.get('unwindset') or {})
    for kk, v in given.items():
        fn, _, idx = kk.rpartition('.')
        cmd += ['--unwindset', '%s:%d' % (('%s_wrapped_for_contract_checking.%s' % (fn, idx)) if fn == target_cname else kk, v)]
    given_names = set(given) | set('%s_wrapped_for_contract_checking.%s' % (kk.rpartition('.')[0], kk.rpartition('.')[2]) for kk in given)
    for lp in _lowered_loops(b_gb, names):
        if lp not in given_names:
            cmd += ['--unwindset', '%s:%d' % (lp, k)]
    if cfg.get('object_bits'):
        cmd += ['--object-bits', str(cfg['object_bits'])]
    if cfg.get('sat_solver', 'cadical') != 'minisat2':
        cmd += ['--sat-solver', cfg.get('sat_solver', 'cadical')]
    rc, o, e, dt = run(cmd, min(cfg.get('timeout', 600), 300), cfg.get('mem_gb', 8)); out['time'] += dt
    out['cmd'] = ' '.join(cmd)
    if rc == 'timeout':
        out['reason'] = 'timeout'; return out
    try:
        results = None
        for item in json.loads(o):
            if isinstance(item, dict) and 'result' in item:
                results = item['result']
    except Exception:
        results = None
    if results is None:
        out['reason'] = 'no result list'; return out
    out['ok'] = True
    out['complete'] = True
    for r in results:
        desc = r.get('description') or ''
        if desc.startswith('canary'):
            continue
        out['n'] += 1
        if r.get('status') != 'FAILURE':
            continue
        if '.unwind.' in (r.get('property') or '') or desc.startswith('unwinding assertion'):
            out['complete'] = False
            continue
        sl = r.get('sourceLocation', {})
        ob = {'name': r.get('property'), 'description': desc, 'status': 'FAILURE', 'file': sl.get('file'),
              'line': int(sl['line']) if sl.get('line') else None, 'function': sl.get('function')}
        if r.get('trace'):
            ob['trace'] = compact_trace(r['trace'])
        out['failed'].append(ob)
    return out


def verify(cfile, workdir, cfg, target_cname, build):
    """returns dict(status, obligations=[...], log, times)"""
    base = os.path.join(workdir, os.path.splitext(os.path.basename(cfile))[0])
    a_gb, b_gb = base + '.a.gb', base + '.b.gb'
    res = {'status': 'undecided', 'reason': None, 'obligations': [], 'times': {}, 'cmds': []}
    cmd = ['goto-cc', '--function', 'harness', cfile, '-o', a_gb]
    res['cmds'].append(' '.join(cmd))
    rc, out, err, dt = run(cmd, 120)
    res['times']['goto-cc'] = dt
    cfile_nl = cfile[:-2] + '.noloops.c'
    if rc != 0:
        res['reason'] = 'goto-cc failed (generated C does not compile: lowering or contract text broken)\n' + (out + err)[-3000:]
        if os.path.exists(cfile_nl) and 'loop_invariant' in (out + err) + open(cfile).read():
            fb = bounded_fallback(cfile_nl, workdir, cfg, target_cname, build)
            res['times']['cbmc-fallback'] = fb['time']
            if fb['ok'] and fb['failed']:
                res['status'] = 'done'; res['obligations'] = fb['failed']; res['lines_key'] = 'lines_noloops'
                res['triage'] = 'the loop contracts of the spec no longer compile against the code; the unit re-verified without them (loops unwound %d times) fails these obligations' % fb['k']
                return res
            if fb['ok'] and fb['complete']:
                res['reason'] = ('the loop contracts of the spec no longer compile against the lowered code (loop rewritten?); re-verified without them, loops unwound %d times with '
                                 'unwinding assertions: all %d obligations discharged -- bounded, so undecided, not a violation\n' % (fb['k'], fb['n'])) + res['reason']
            else:
                res['reason'] = 'bounded fall-back without loop contracts inconclusive (%s); ' % (fb.get('reason') or 'unwinding bound %d too small' % fb['k']) + res['reason']
        return res
    ctx = build.ctx
    cmd = ['goto-instrument', '--dfcc', 'harness']
    rec = cfg.get('enforce_rec', False)
    cmd += ['--enforce-contract-rec' if rec else '--enforce-contract', target_cname]
    for cname, mode in ctx.fn_mode.items():
        if mode in ('contract', 'stub') and cname in ctx.fn_decls:
            cmd += ['--replace-call-with-contract', cname]
    has_loops = any(c.get('loops') for n, c in cfg.get('contracts', {}).items() if n in getattr(ctx, 'fn_bodies_names', [n]))
    if has_loops:
        cmd += ['--apply-loop-contracts']
    cmd += [a_gb, b_gb]
    res['cmds'].append(' '.join(cmd))
    rc, out, err, dt = run(cmd, cfg.get('instrument_timeout', 300))
    res['times']['goto-instrument'] = dt
    if rc != 0:
        res['reason'] = 'goto-instrument failed\n' + (out + err)[-3000:]
        return res
    # ---- loops of lowered bodies that neither a loop contract nor an unwind bound of the spec covers (a loop the spec does not
    # know: new code).  CBMC would unwind such a loop without bound (-> timeout -> undecided).  Before that, search the first
    # iterations for a failing obligation: a failure found with the loop cut short is a failure of the uncut program (paths are
    # only removed), so it is reported; finding none decides nothing and the unbounded run follows.
    try:
        txt = open(cfile).read()
    except OSError:
        txt = ''
    marks = re.findall(r'/\* loop ([A-Za-z0-9_]+)#(\w+): no contract \*/', txt)
    covered = set((cfg.get('unwindset') or {}).keys()) | set('%s.%s' % (target_cname, k) for k in (cfg.get('unwind_target_loops') or {}))
    uncovered = sorted(set('%s.%s' % (f, k) for f, k in marks) - covered)
    if uncovered and not cfg.get('unwind') and not cfg.get('no_loop_triage'):
        # name the loops as the instrumented program knows them (a global --unwind would also cut the loops of the contract library)
        rc, out, err, dt = run(['cbmc', '--show-loops', b_gb], 60)
        present = re.findall(r'^Loop ([A-Za-z0-9_]+)\.(\d+):', out or '', re.M)
        unc_fns = set(x.rpartition('.')[0] for x in uncovered)
        cov_names = set()
        for k in (cfg.get('unwindset') or {}):
            fn, _, idx = k.rpartition('.')
            cov_names.add(k); cov_names.add('%s_wrapped_for_contract_checking.%s' % (fn, idx))
        for k in (cfg.get('unwind_target_loops') or {}):
            cov_names.add('%s_wrapped_for_contract_checking.%s' % (target_cname, k))
        tcmd = ['cbmc', b_gb] + CBMC_CHECKS + ['--json-ui', '--trace']
        for fn, idx in present:
            base_fn = fn[:-len('_wrapped_for_contract_checking')] if fn.endswith('_wrapped_for_contract_checking') else fn
            if base_fn in unc_fns and '%s.%s' % (fn, idx) not in cov_names:
                tcmd += ['--unwindset', '%s.%s:%d' % (fn, idx, cfg.get('triage_unwind', 3))]
        for k, v in (cfg.get('unwindset') or {}).items():
            fn, _, idx = k.rpartition('.')
            tcmd += ['--unwindset', '%s:%d' % (('%s_wrapped_for_contract_checking.%s' % (fn, idx)) if fn == target_cname else k, v)]
        for k, v in (cfg.get('unwind_target_loops') or {}).items():
            tcmd += ['--unwindset', '%s_wrapped_for_contract_checking.%s:%d' % (target_cname, k, v)]
        if cfg.get('object_bits'):
            tcmd += ['--object-bits', str(cfg['object_bits'])]
        if cfg.get('sat_solver', 'cadical') != 'minisat2':
            tcmd += ['--sat-solver', cfg.get('sat_solver', 'cadical')]
        res['cmds'].append(' '.join(tcmd))
        rc, out, err, dt = run(tcmd, min(cfg.get('timeout', 600), 300), cfg.get('mem_gb', 8))
        res['times']['cbmc-loop-triage'] = dt
        res['uncovered_loops'] = uncovered
        fails = []
        if rc != 'timeout':
            try:
                for item in json.loads(out):
                    for r in item.get('result', []) if isinstance(item, dict) else []:
                        nm = r.get('property') or ''
                        if r.get('status') == 'FAILURE' and '.unwind.' not in nm and not (r.get('description') or '').startswith('canary') \
                                and not (r.get('description') or '').startswith('unwinding assertion'):
                            fails.append(r)
            except Exception:
                fails = []
        if fails:
            for r in fails:
                sl = r.get('sourceLocation', {})
                ob = {'name': r.get('property'), 'description': r.get('description'), 'status': 'FAILURE',
                      'file': sl.get('file'), 'line': int(sl['line']) if sl.get('line') else None, 'function': sl.get('function')}
                if r.get('trace'):
                    ob['trace'] = compact_trace(r['trace'])
                res['obligations'].append(ob)
            res['status'] = 'done'
            res['triage'] = 'loop(s) %s have no loop contract; searching their first %s iterations found failing obligations' % (', '.join(uncovered), cfg.get('triage_unwind', 3))
            return res
    cmd = ['cbmc', b_gb] + CBMC_CHECKS + ['--json-ui', '--trace']
    if cfg.get('unwind'):
        cmd += ['--unwind', str(cfg['unwind']), '--unwinding-assertions']
    for k, v in (cfg.get('unwindset') or {}).items():
        cmd += ['--unwindset', '%s:%d' % (k, v)]
        fn, _, idx = k.rpartition('.')
        if fn == target_cname:
            # DFCC renames the function under verification
            cmd += ['--unwindset', '%s_wrapped_for_contract_checking.%s:%d' % (fn, idx, v)]
    for k, v in (cfg.get('unwind_target_loops') or {}).items():
        cmd += ['--unwindset', '%s_wrapped_for_contract_checking.%s:%d' % (target_cname, k, v)]
    if cfg.get('unwindset') or cfg.get('unwind_target_loops'):
        cmd += ['--unwinding-assertions']
    if cfg.get('object_bits'):
        cmd += ['--object-bits', str(cfg['object_bits'])]
    # CaDiCaL is the default back end (MiniSat stalled on some units that CaDiCaL closes in seconds); 'minisat2' selectable per unit
    solver = cfg.get('sat_solver', 'cadical')
    if solver and solver != 'minisat2':
        cmd += ['--sat-solver', solver]
    cmd += cfg.get('cbmc_extra', [])
    res['cmds'].append(' '.join(cmd))
    rc, out, err, dt = run(cmd, cfg.get('timeout', 600), cfg.get('mem_gb', 8))
    res['times']['cbmc'] = dt
    if rc == 'timeout':
        res['reason'] = 'cbmc timeout after %ss' % cfg.get('timeout', 600)
        return res
    try:
        j = json.loads(out)
    except Exception:
        res['reason'] = 'cbmc output not parseable (rc=%s)\n%s' % (rc, (out + err)[-3000:])
        return res
    results = None
    msgs = []
    for item in j:
        if 'result' in item:
            results = item['result']
        if 'messageText' in item:
            msgs.append(item['messageText'])
        if 'cProverStatus' in item:
            res['cprover_status'] = item['cProverStatus']
    res['messages'] = msgs[-40:]
    if any('ignoring' in m and ('forall' in m or 'exists' in m) for m in msgs):
        res['reason'] = 'quantifier ignored by the SAT back end'
        return res
    if results is None:
        res['reason'] = 'cbmc produced no result list (rc=%s): %s' % (rc, ' | '.join(msgs[-6:]))
        return res
    for r in results:
        sl = r.get('sourceLocation', {})
        ob = {'name': r.get('property'), 'description': r.get('description'), 'status': r.get('status'),
              'file': sl.get('file'), 'line': int(sl['line']) if sl.get('line') else None, 'function': sl.get('function')}
        if r.get('status') == 'FAILURE' and r.get('trace'):
            ob['trace'] = compact_trace(r['trace'])
        res['obligations'].append(ob)
    res['status'] = 'done'
    failed = [o for o in res['obligations'] if o['status'] == 'FAILURE' and not (o.get('description') or '').startswith('canary')]
    if failed and has_loops and os.path.exists(cfile_nl) and not cfg.get('no_fallback'):
        # the unit has loop contracts and something fails: is it the code, or a loop contract that went stale (loop rewritten,
        # invariant phrased over a temporary)?  Re-verify without loop contracts, loops unwound with unwinding assertions.
        fb = bounded_fallback(cfile_nl, workdir, cfg, target_cname, build)
        res['times']['cbmc-fallback'] = fb['time']
        if fb['ok'] and fb['complete'] and not fb['failed']:
            res['status'] = 'undecided'
            res['reason'] = ('%d obligation(s) fail with the loop contracts of the spec (%s) but the same unit without loop contracts, loops unwound %d times with unwinding '
                             'assertions, discharges all %d obligations: the loop contract no longer fits the code; bounded, so undecided, not a violation'
                             % (len(failed), ', '.join(o['name'] for o in failed[:4]), fb['k'], fb['n']))
        elif fb['ok'] and fb['failed']:
            res['fallback_confirms'] = [o['name'] for o in fb['failed']][:8]
    return res


def compact_trace(tr):
    out = []
    for st in tr:
        if st.get('stepType') == 'assignment' and not st.get('hidden'):
            lhs = st.get('lhs')
            v = st.get('value', {})
            val = v.get('data', v.get('name'))
            if val is None and 'members' in v:
                val = json.dumps(_flatten_value(v))[:400]
            if val is None and 'elements' in v:
                val = json.dumps(_flatten_value(v))[:400]
            sl = st.get('sourceLocation', {})
            out.append({'lhs': lhs, 'value': val, 'line': sl.get('line'), 'fn': sl.get('function')})
        elif st.get('stepType') == 'failure':
            out.append({'failure': st.get('reason'), 'property': st.get('property')})
    return out[-400:]


def _flatten_value(v):
    if 'members' in v:
        return {m['name']: _flatten_value(m['value']) for m in v['members']}
    if 'elements' in v:
        return [_flatten_value(e['value']) for e in v['elements']][:40]
    return v.get('data', v.get('name'))
