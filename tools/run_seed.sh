#!/bin/bash
# run_seed.sh <seed-dir> <property> [check.py args...] : apply a seeded change to /repo, run the check, undo the change.
S=$(readlink -f "$1"); P=$2; shift 2
cd /repo && git diff --quiet || { echo "/repo has local changes; refusing"; exit 9; }
git -C /repo apply $S/patch.diff || { echo "patch does not apply"; exit 3; }
cd /verif && python3 check.py $P "$@" 2>&1 | grep -E 'VIOLATION|FAILED OBLIGATION|UNDECIDED|KNOWN|tier=' | cut -c1-330 | head -14
rc=${PIPESTATUS[0]}
git -C /repo checkout -- .
git -C /repo diff --quiet && echo "(repo restored) check rc=$rc"
