#!/usr/bin/env python3
"""Regenerates MANIFEST.json from the table below (kept in one place so that it stays valid)."""
import json, os
HERE = os.path.dirname(os.path.dirname(os.path.abspath(__file__)))
TECH = 'contract-based deductive verification: clang AST of /repo lowered to C each run, CBMC code contracts (requires/ensures/assigns/loop invariants) enforced per function with goto-instrument --dfcc'
NOTE = ('Trusted: clang 14 AST, tools/cxx2c.py lowering (classes->structs, refs->pointers, RAII dtors explicit), CBMC 6.11 + DFCC + CaDiCaL, '
        'callback/logger stubs as the model of user code, bindings between symbolic constants checked natively on the witness only, contracts restated at a caller\'s abstraction level (evidence: assumed_contracts). '
        'Witnessed builds: int payload, no payload type, payload larger than its alignment, logging on / verbose / compiled out, value and reference context, manual and automatic activation; states with all / one / no callbacks. Thorough tier = quick tier + the bounded plan / constructor units at larger bounds (capacity 7 / 5) + the full-capacity array append. See evidence assumptions.')
CLAIMED = {
 'C01': dict(ref='4 (C01)', text='Proof: the enter/exit protocol is a ghost automaton (g_entered, g_root_entered) whose transitions are preconditions of every lifecycle callback stub; the machine invariant (one active state = entered state, nothing staged) is re-established by every public operation under contract (R_ initialEnter/finalExit/processRequest/update/react/replayTransition/load, RV_ load) for every state count (CS_ split induction), substitution limit and callback behaviour.'),
 'C02': dict(ref='4 (C02)', text='Proof: request makers have the registry outside their frame and overwrite the single request; R_::processTransitions carries a loop invariant "accepted transition == most recent request not cancelled (ghost survivor), staged destination == its destination" with a decreasing variant; postcondition active == survivor destination reached by exit/enter or reenter, unchanged without survivor. Unbounded in N, L and callback behaviour.'),
 'C03': dict(ref='4 (C03)', text='Proof: guard order and short-circuit as call-site preconditions (!cancelled when consulted), guard evaluation has registry and lifecycle marks outside its frame, veto honoured in every round by the loop invariant of C02; replay/load units have no guard mark in their frame.'),
 'C04': dict(ref='4 (C04)', text='Proof: loop variant LIMIT - i and ghost round counter (rounds <= LIMIT, activation <= LIMIT + 1), left-over request stays outstanding exactly as issued; bounded inlined stand-ins (limit <= 3) independent of how the R_ functions divide the work; static obligations tie SUBSTITUTION_LIMIT / TASK_CAPACITY to the Config aliases the user wrote.'),
 'C05': dict(ref='4 (C05)', text='Proof: per-kind delivery timestamps (ghost clock) give exactly-once and the fixed order root/active/active/root across R_ -> C_ -> CS_ -> S_; stubs require the addressed state to be the active one and the event pointer to be the caller\'s; query has nothing of the machine in its frame.'),
 'C06': dict(ref='4 (C06)', text='Proof: every control accessor equals the core field it exposes, isActive(id) == (active == id) for all ids in every flavour, the type-based forms forward to the id-based ones with that type\'s id, scoped origin set/restored, requests record the caller as origin.'),
 'C07': dict(ref='4 (C07)', text='Proof for the witness payload type (int, all values): constructors copy the payload bytes, request -> pending -> current -> previous are struct copies tracked by ghost copies (g_lastreq, g_surv); bounded in payload type. Known finding F9 (duplicate request dropped) is reported, not hidden.'),
 'C08': dict(ref='4 (C08)', text='Bounded proof: whole plan walk of FullControlT::updatePlan (both specialisations) from any well-formed plan against the statement as a relation (capacity <= 4 quick / 5 thorough, states <= 8), status bits and reports for all N.'),
 'C09': dict(ref='4 (C09)', text='Bounded proof (capacity <= 4 quick / 5 thorough): outcome branches of updatePlan and C_::deepUpdatePlans (both specialisations), PlanDataT::clear*, planExists initialised and cleared, heads that define only one outcome callback.'),
 'C10': dict(ref='4 (C10)', text='Inductive proof over histories with an executable representation invariant of TaskListT / PlanT; quick tier bounded in capacity (<= 5), thorough tier <= 7; static obligations tie TASK_CAPACITY to the Config alias.'),
 'C11': dict(ref='4 (C11)', text='Proof: previousTransition == ghost survivor after every processing step and after activation; replayTransition has no guard in its frame; invalid id changes nothing.'),
 'C12': dict(ref='4 (C12)', text='Proof for every state count 1..255: save writes the canonical encoding within 1 + bitWidth(N) bits and nothing of the machine; load decodes it and performs exactly the needed lifecycle step, no guards; canonicity lemma.'),
 'C13': dict(ref='4 (C13)', text='Proof for every stream capacity 1..255, cursor, field width 1..32 (three Item types) and value: write/read/ctors/buffer ops, bitWidth() for every 32-bit argument and its sufficiency. Chunk loops unwound 6x with unwinding assertions (complete by field width).'),
 'C14': dict(ref='4 (C14)', text='Proof by induction over the state list: the CS_ inner node with symbolic offset and size against the same contract for its halves, the leaf against S_; initial state 0; witness skeleton check for the template instantiation structure. access<T>() identity assumed.'),
 'C15': dict(ref='4 (C15)', text='Proof for k = 3 injections (and k = 0): injection timestamps strictly ordered before / after the state\'s own callback on the pre / post side. Bounded in k.'),
 'C16': dict(ref='4 (C16)', text='Proof: with a logger exactly one method record as the first tick of every delivery to a state that defines the callback, none without logger; states that define no / one callback and verbose logging covered by the sparse witness; one record with the right arguments per changeTo/changeWith/cancel/succeed/fail; all other proofs hold for logger NULL or not (non-interference).'),
 'C17': dict(ref='4 (C17)', text='Bounded proof (capacity <= 4 quick / 5 thorough): CoreT constructed over arbitrary memory has every field determined; copy constructors of CoreT / R_ / RV_ equal the source field by field (state objects included).'),
 'C18': dict(ref='4 (C18)', text='Proof of memory/arithmetic safety obligations of every unit of C01..C20 (686 units over all witnessed builds); alignment from the real compilers\' layout (known finding F5); allocation freedom as a static fact.'),
 'C20': dict(ref='4 (C20)', text='Proof, for every capacity 1..255 (symbolic) and every index/bit (ghost index): per-operation postconditions of BitArrayT / StaticArrayT / DynamicArrayT against the set / array model, frames, padding invariant; loops closed by loop contracts.'),
}
NA = {
 'C19': 'not a pre/post-condition of any function: compile matrix over 2^8 switch combinations x 4 standards x 2 compilers and byte-equality of a generated file; needs a build matrix / differential runs, which is a different technique (DESIGN.md section 6)',
}
PENDING = 'check not built yet in this session (design in DESIGN.md section 4); not claimed until its units discharge'
def main():
    checks = []
    for pid in sorted(CLAIMED):
        c = CLAIMED[pid]
        checks.append({
            'property_id': pid,
            'quick_cmd': 'python3 check.py %s --tier quick' % pid,
            'thorough_cmd': 'python3 check.py %s --tier thorough' % pid,
            'evidence_file': '/verif/evidence/%s.json' % pid,
            'replay_cmd_template': 'python3 check.py --replay {path}',
            'engine': 'cbmc-contracts',
            'level_claimed': {'category': 'proof', 'text': c['text'], 'design_ref': 'DESIGN.md section ' + c['ref']},
            'level_note': c.get('note', NOTE),
            'technique': TECH,
        })
    na = []
    for i in range(1, 21):
        pid = 'C%02d' % i
        if pid in CLAIMED: continue
        na.append({'property_id': pid, 'reason': NA.get(pid, PENDING)})
    m = {
        'version': 1,
        'setup_cmd': 'python3 -m py_compile check.py replay.py replay_native.py tools/cxxast.py tools/cxx2c.py tools/unit.py tools/c18_static.py tools/config_static.py tools/ledgerlib.py contracts/*.py && clang++ --version >/dev/null && g++ --version >/dev/null && cbmc --version >/dev/null && goto-cc --version >/dev/null && goto-instrument --version >/dev/null',
        'hooks': {'guard': 'FFSM2_VERIF', 'enable': 'no source hooks are needed: the checks read /repo through clang -ast-dump=json; the guard name is reserved and unused',
                  'baseline_off_cmd': 'cd /repo && cmake -G Ninja -B _build -S . >/dev/null && cmake --build _build && ctest --test-dir _build -j8 --timeout 900',
                  'source_commits': [], 'add_only': True},
        'engines': [{'name': 'cbmc-contracts', 'path': '/verif/check.py', 'serves_properties': sorted(CLAIMED),
                     'kind_free_text': 'clang JSON AST -> C lowering (tools/cxx2c.py) + sidecar contracts (contracts/*.py) + goto-instrument --dfcc + cbmc'}],
        'checks': checks,
        'not_applicable': na,
        'notes': 'Exit codes of check.py: 0 all obligations discharged, 1 VIOLATION, 2 undecided (tool limit, lowering unsupported, vacuity). known_findings.txt lists recorded findings and fixed defects.',
    }
    json.dump(m, open(os.path.join(HERE, 'MANIFEST.json'), 'w'), indent=1)
main()
