#!/usr/bin/env python3
"""Regenerates MANIFEST.json from the table below (kept in one place so that it stays valid)."""
import json, os
HERE = os.path.dirname(os.path.dirname(os.path.abspath(__file__)))
TECH = 'contract-based deductive verification: clang AST of /repo lowered to C each run, CBMC code contracts (requires/ensures/assigns/loop invariants) enforced per function with goto-instrument --dfcc'
NOTE = ('Trusted: clang 14 AST, tools/cxx2c.py lowering (classes->structs, refs->pointers, RAII dtors explicit), CBMC 6.11 + DFCC + MiniSat, '
        'callback/logger stubs as the model of user code, bindings between symbolic constants checked on the witness only. See evidence assumptions.')
CLAIMED = {
 'C13': dict(text='Proof for every stream capacity 1..255, every cursor, every field width 1..32 (three Item types lowered separately) and every value: write<N> advances the cursor by exactly N, alters only the bits of its own field, keeps bits past the cursor zero; read<N> returns exactly the bits at the cursor; constructors, buffer clear/==/!=; bitWidth() for every 32-bit argument and its sufficiency for state counts 1..255 (lemma over the contract). Chunk loops unwound 6x with unwinding assertions (complete by field width). Sequences follow by induction from the frame clauses.',
             ref='4 (C13)'),
 'C20': dict(text='Proof, for every capacity 1..255 (symbolic) and every index/bit (ghost index): per-operation postconditions of BitArrayT / StaticArrayT / DynamicArrayT against the set / array model, frame clauses (an operation on one index does not disturb another), padding-bits invariant; byte loops closed by loop contracts. Histories follow by induction over operations.',
             ref='4 (C20)'),
}
NA = {
 'C19': 'not a pre/post-condition of any function: compile matrix over 2^8 switch combinations x 4 standards x 2 compilers and byte-equality of a generated file; needs a build matrix / differential runs, which is a different technique (DESIGN.md section 6)',
}
PENDING = 'check not built yet in this session (design in DESIGN.md section 4); not claimed until its units discharge'
def main():
    checks = []
    for pid in sorted(CLAIMED):
        c = CLAIMED[pid]
        checks.append({
            'property_id': pid,
            'quick_cmd': 'python3 check.py %s --tier quick' % pid,
            'thorough_cmd': 'python3 check.py %s --tier thorough' % pid,
            'evidence_file': '/verif/evidence/%s.json' % pid,
            'replay_cmd_template': 'python3 check.py --replay {path}',
            'engine': 'cbmc-contracts',
            'level_claimed': {'category': 'proof', 'text': c['text'], 'design_ref': 'DESIGN.md section ' + c['ref']},
            'level_note': c.get('note', NOTE),
            'technique': TECH,
        })
    na = []
    for i in range(1, 21):
        pid = 'C%02d' % i
        if pid in CLAIMED: continue
        na.append({'property_id': pid, 'reason': NA.get(pid, PENDING)})
    m = {
        'version': 1,
        'setup_cmd': 'python3 -m py_compile check.py replay.py tools/cxxast.py tools/cxx2c.py tools/unit.py && clang++ --version >/dev/null && cbmc --version >/dev/null && goto-instrument --version >/dev/null',
        'hooks': {'guard': 'FFSM2_VERIF', 'enable': 'no source hooks are needed: the checks read /repo through clang -ast-dump=json; the guard name is reserved and unused',
                  'baseline_off_cmd': 'cd /repo && cmake -G Ninja -B _build -S . >/dev/null && cmake --build _build && ctest --test-dir _build -j8 --timeout 900',
                  'source_commits': [], 'add_only': True},
        'engines': [{'name': 'cbmc-contracts', 'path': '/verif/check.py', 'serves_properties': sorted(CLAIMED),
                     'kind_free_text': 'clang JSON AST -> C lowering (tools/cxx2c.py) + sidecar contracts (contracts/*.py) + goto-instrument --dfcc + cbmc'}],
        'checks': checks,
        'not_applicable': na,
        'notes': 'Exit codes of check.py: 0 all obligations discharged, 1 VIOLATION, 2 undecided (tool limit, lowering unsupported, vacuity). known_findings.txt lists recorded findings and fixed defects.',
    }
    json.dump(m, open(os.path.join(HERE, 'MANIFEST.json'), 'w'), indent=1)
main()
