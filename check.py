#!/usr/bin/env python3
"""check.py <property-id> [--tier quick|thorough] [--unit <id>] [--keep] [--jobs N]
   check.py --replay <path>

Contract-based deductive verification of FFSM2 (see DESIGN.md).  For the given property:
  1. dump clang's AST of the witness translation units against /repo's *current* working tree
     (both the shipped include/ffsm2/machine.hpp and development/ffsm2/machine_dev.hpp),
  2. lower the functions the property depends on to C, inject the sidecar contracts,
  3. discharge every obligation with goto-instrument --dfcc + cbmc, 16 units at a time,
  4. write evidence/<id>.json, print VIOLATION / KNOWN-FINDING lines.
Exit codes: 0 all obligations discharged (known findings subtracted), 1 violation, 2 undecided.
"""
import argparse, concurrent.futures as cf, importlib, json, os, re, shutil, subprocess, sys, tempfile, time, traceback, hashlib

HERE = os.path.dirname(os.path.abspath(__file__))
sys.path.insert(0, os.path.join(HERE, 'tools'))
sys.path.insert(0, HERE)
REPO = os.environ.get('FFSM2_REPO', '/repo')

from cxxast import AST, Unsupported, dump_ast   # noqa: E402
import unit as U                                # noqa: E402

VARIANTS = {
    'include': dict(inc=[os.path.join(REPO, 'include')], header='<ffsm2/machine.hpp>'),
    'development': dict(inc=[os.path.join(REPO, 'development')], header='<ffsm2/machine_dev.hpp>'),
}
PROPS = ['C%02d' % i for i in range(1, 21)]
SPEC_MODULES = ['contracts.machine', 'contracts.serial', 'contracts.control', 'contracts.plans', 'contracts.c20', 'contracts.c13', 'contracts.c10', 'contracts.c07', 'contracts.structure', 'contracts.c17', 'contracts.voidp', 'contracts.sparse', 'contracts.wrappers', 'contracts.deep', 'contracts.p8', 'contracts.nolog']


def load_units():
    units = []
    for m in SPEC_MODULES:
        try:
            mod = importlib.import_module(m)
        except ModuleNotFoundError as e:
            if e.name == m or e.name == m.split('.')[0]:
                continue
            raise
        for u in mod.UNITS:
            u = dict(u)
            u.setdefault('module', m)
            # a unit serves every property one of its target's postconditions is tagged with (the target's contract is
            # the first entry of 'contracts' by construction of the unit helpers)
            cs = u.get('contracts') or {}
            if cs:
                tags = set()
                for e in cs['@target' if '@target' in cs else next(iter(cs))].get('ensures', []):
                    if isinstance(e, tuple):
                        tags.update(t for t in e[0].split('#')[0].split(',') if t)
                u['props'] = list(u.get('props', [])) + sorted(tags - set(u.get('props', [])))
            units.append(u)
    ids = [u['id'] for u in units]
    assert len(ids) == len(set(ids)), 'duplicate unit ids'
    return units


def witness_defines(u):
    return list(u.get('witness_defines', []))


def ast_key(witness, variant, defines):
    return '%s.%s.%s' % (witness, variant, hashlib.sha1(' '.join(defines).encode()).hexdigest()[:8])


def dump_job(args):
    witness, variant, defines, work = args
    v = VARIANTS[variant]
    out = os.path.join(work, ast_key(witness, variant, defines) + '.json')
    try:
        dump_ast(os.path.join(HERE, 'witness', witness + '.cpp'), out, v['inc'], ['FFSM2_HEADER=' + v['header']] + defines)
        if os.path.getsize(out) > (1 << 30):
            os.unlink(out)
            return (witness, variant, tuple(defines), None, 'AST of witness %s %s exceeds 1 GB (too many states in one machine?)' % (witness, defines))
        return (witness, variant, tuple(defines), out, None)
    except Unsupported as e:
        return (witness, variant, tuple(defines), None, str(e))


def strip_marks(txt):
    txt = re.sub(r' /\*@[^*]*\*/', '', txt)
    txt = re.sub(r'\[[A-Za-z0-9_./]+:\d+\]', '[]', txt)
    txt = re.sub(r'anon_0x[0-9a-f]+', 'anon', txt)   # clang's node addresses in the names of anonymous records
    return txt


def lower_group(args):
    """lower all units that share one AST (one process loads the JSON once)"""
    astpath, variant, unit_cfgs, work = args
    out = []
    try:
        ast = AST(astpath)
    except Exception as e:
        return [(u['id'], variant, None, None, 'AST load failed: %s' % e, None) for u in unit_cfgs]
    for u in unit_cfgs:
        try:
            b = U.UnitBuild(ast, u)
            txt = b.build()
            nspec = b.native_const_spec(txt)
            cfile = os.path.join(work, '%s.%s.c' % (u['id'], variant))
            with open(cfile, 'w') as f:
                f.write(txt)
            import ledgerlib
            led = ledgerlib.collect(b, u)
            txt_nl, lines_nl = b.render_without_loop_contracts()
            if txt_nl:
                with open(cfile[:-2] + '.noloops.c', 'w') as f:
                    f.write(txt_nl)
            meta = {'lines': b.lines_meta, 'target': b.target_cname, 'notes': b.notes, 'bodies': list(b.ctx.fn_bodies),
                    'fn_mode': dict(b.ctx.fn_mode), 'fn_info': b.ctx.fn_info,
                    'fn_decls': list(b.ctx.fn_decls), 'consts': {k: {'kind': v['kind'], 'concrete': v.get('concrete')} for k, v in b.ctx.consts.items()}, 'native': nspec,
                    'lines_noloops': lines_nl if txt_nl else None, 'ledger': led}
            out.append((u['id'], variant, cfile, meta, None, txt))
        except Unsupported as e:
            out.append((u['id'], variant, None, None, 'lowering: %s' % e, None))
        except Exception as e:
            out.append((u['id'], variant, None, None, 'lowering crashed: %s\n%s' % (e, traceback.format_exc()[-1500:]), None))
    return out


class _B:
    """minimal stand-in for UnitBuild in the verify worker (only ctx.fn_mode / fn_decls are needed)"""
    def __init__(self, meta):
        self.ctx = self
        self.fn_mode = meta['fn_mode']
        self.fn_decls = {k: True for k in meta['fn_decls']}
        self.fn_bodies_names = meta.get('bodies', [])


def verify_job(args):
    u, variant, cfile, meta, work = args
    try:
        note = None
        if meta.get('native'):
            err, note = U.run_native_const_check(meta['native'], os.path.join(work, 'native_%s_%s' % (re.sub(r'[^A-Za-z0-9_.]', '_', u['id']), variant)))
            if err:
                return (u['id'], variant, {'status': 'undecided', 'reason': err, 'obligations': [], 'times': {}, 'cmds': []})
        r = U.verify(cfile, work, u, meta['target'], _B(meta))
        if note:
            r['const_note'] = note
    except Exception as e:
        r = {'status': 'undecided', 'reason': 'verify crashed: %s' % e, 'obligations': [], 'times': {}, 'cmds': []}
    return (u['id'], variant, r)


def assumed_summary(lowered, same_text):
    """every callee contract the units of this run assume, matched with the unit that enforces a contract on the same function"""
    import ledgerlib
    recs, seen = [], set()
    for (uid, v), (cfile, meta, txt) in sorted(lowered.items()):
        if uid in seen or not meta or not meta.get('ledger'):
            continue
        seen.add(uid)
        recs.append(meta['ledger'])
    rows, counts = ledgerlib.match(recs)
    agg = {}
    for r in rows:
        if r['status'] in ('same', 'user-code'):
            continue
        k = (r['callee'], r['status'], r['enforced_by'])
        agg.setdefault(k, []).append(r['unit'])
    return {'legend': 'same: the caller assumes (a weakening of) the very clauses the callee\'s unit enforces; instance-or-restated: a contract is enforced on that function '
                      'but with different text (instantiation of a generated contract at other constants, or a restatement at the caller\'s abstraction level): assumed, '
                      'see DESIGN.md section 6; user-code: model of arbitrary user code / logger implementation (assumption by design); not-enforced-in-this-run: the '
                      'enforcing unit belongs to another property\'s check (evidence/C18.json runs all units)',
            'counts': counts,
            'not_same': [{'callee': k[0], 'status': k[1], 'enforced_by': k[2], 'assumed_in': sorted(set(us))[:6]} for k, us in sorted(agg.items())][:250]}


def classify(u, meta, res):
    """split obligations into canaries / failed / discharged and attach contract metadata"""
    out = {'canary_ok': False, 'failed': [], 'n': 0, 'discharged': 0, 'loop_obligations': 0, 'samples': []}
    lines = {int(k): v for k, v in (meta.get(res.get('lines_key') or 'lines') or {}).items()}
    for o in res['obligations']:
        desc = o.get('description') or ''
        if desc.startswith('canary'):
            out['canary_ok'] = out['canary_ok'] or o['status'] == 'FAILURE'
            if o['status'] != 'FAILURE':
                out['canary_failed_to_fail'] = True
            continue
        out['n'] += 1
        m = lines.get(o.get('line') or -1)
        if m and (o['name'] or '').split('.')[-2:-1] in (['postcondition'], ['precondition']):
            o['clause'] = m['text']; o['tag'] = m.get('tag')
            if o['tag'] and '#' in o['tag']:
                o['label'] = o['tag'].split('#', 1)[1]
        if 'loop_invariant' in (o['name'] or '') or 'loop_decreases' in (o['name'] or '') or 'loop_step' in (o['name'] or ''):
            out['loop_obligations'] += 1
        if o['status'] == 'SUCCESS':
            out['discharged'] += 1
        elif res.get('triage') and re.match(r'^__CPROVER_(requires|ensures)\(\(*g_clock\s*(<|<=|>=)', o.get('clause') or ''):
            # bounds on the ghost clock are proof bookkeeping (they size the counters), not statements about the code: in a
            # truncated search through a loop the spec does not know they decide nothing
            out.setdefault('artifact_only', []).append(o['name'])
        else:
            out['failed'].append(o)
    return out


def src_of_line(cfile, line):
    try:
        with open(cfile) as f:
            ls = f.readlines()
        t = ls[line - 1]
        m = re.search(r'/\*@([^*]*)\*/', t)
        return (m.group(1) if m else None), t.strip()
    except Exception:
        return None, None


def load_known():
    p = os.path.join(HERE, 'known_findings.txt')
    out = []
    if os.path.exists(p):
        for ln in open(p):
            ln = ln.strip()
            if not ln or ln.startswith('#'):
                continue
            out.append(ln)
    return out


def main():
    ap = argparse.ArgumentParser()
    ap.add_argument('prop', nargs='?')
    ap.add_argument('--tier', default=os.environ.get('VERIF_TIER', 'quick'))
    ap.add_argument('--unit', action='append')
    ap.add_argument('--keep', action='store_true')
    ap.add_argument('--jobs', type=int, default=16)
    ap.add_argument('--replay')
    ap.add_argument('--variants', default='include,development')
    ap.add_argument('--show-failed', action='store_true')
    ap.add_argument('--timeout', type=int)
    a = ap.parse_args()
    if a.replay:
        import replay
        sys.exit(replay.replay_file(a.replay))
    prop = a.prop
    t0 = time.time()
    seed = int(os.environ.get('VERIF_SEED', '0') or 0)
    units = [u for u in load_units() if prop in u.get('props', []) and (u.get('tier', 'both') in ('both', a.tier))]
    if a.unit:
        units = [u for u in units if u['id'] in a.unit]
    if not units:
        print('no units serve property %s' % prop)
        sys.exit(2)
    if a.tier == 'thorough':
        units = [dict(u, **u.get('thorough', {})) for u in units]
    if a.timeout:
        units = [dict(u, timeout=a.timeout) for u in units]
    work = tempfile.mkdtemp(prefix='ffsm2verif_', dir=os.environ.get('VERIF_TMP') or None)
    undecided, violations, known_hits = [], [], []
    try:
        variants = a.variants.split(',')
        # 1. ASTs
        need = {}
        for u in units:
            for v in variants:
                need[(u['witness'], v, tuple(witness_defines(u)))] = None
        with cf.ProcessPoolExecutor(max_workers=min(a.jobs, len(need))) as ex:
            for w, v, d, path, err in ex.map(dump_job, [(w, v, list(d), work) for (w, v, d) in need]):
                need[(w, v, d)] = (path, err)
        # 2. lowering (grouped per AST)
        groups = {}
        for u in units:
            for v in variants:
                path, err = need[(u['witness'], v, tuple(witness_defines(u)))]
                if err:
                    undecided.append((u['id'], v, 'witness does not compile against /repo: ' + err[-1500:]))
                    continue
                groups.setdefault((path, v), []).append(u)
        lowered = {}
        jobs = []
        for (path, v), us in groups.items():
            # split big groups so that lowering is parallel too
            n = max(1, min(4, len(us) // 6))
            for i in range(n):
                jobs.append((path, v, us[i::n], work))
        with cf.ProcessPoolExecutor(max_workers=min(a.jobs, max(1, len(jobs)))) as ex:
            for res in ex.map(lower_group, jobs):
                for uid, v, cfile, meta, err, txt in res:
                    if err:
                        undecided.append((uid, v, err))
                    else:
                        lowered[(uid, v)] = (cfile, meta, txt)
        # 3. two-source check: verify once if both copies lower to the same text
        vjobs = []
        same_text = {}
        ubyid = {u['id']: u for u in units}
        for u in units:
            got = [(v, lowered[(u['id'], v)]) for v in variants if (u['id'], v) in lowered]
            if len(got) == 2 and strip_marks(got[0][1][2]) == strip_marks(got[1][1][2]):
                same_text[u['id']] = True
                v, (cfile, meta, txt) = got[0]
                vjobs.append((u, v, cfile, meta, work))
            else:
                same_text[u['id']] = False if len(got) == 2 else None
                for v, (cfile, meta, txt) in got:
                    vjobs.append((u, v, cfile, meta, work))
        # 4. verification
        results = {}
        with cf.ProcessPoolExecutor(max_workers=a.jobs) as ex:
            for uid, v, r in ex.map(verify_job, vjobs):
                results[(uid, v)] = r
        # 5. classification
        known = load_known()
        total_n = total_ok = 0
        bounded_n = bounded_ok = bounded_units = 0      # units labelled bounded: reported apart, never counted as proved
        unit_reports = []
        samples = []
        solver_s = 0.0
        fns_under_contract = {}
        for (uid, v), r in sorted(results.items()):
            u = ubyid[uid]
            cfile, meta, txt = lowered[(uid, v)]
            solver_s += sum(r.get('times', {}).values())
            rep = {'unit': uid, 'copy': v if not same_text.get(uid) else 'include+development (identical lowered text)',
                   'target': meta['target'], 'times_s': {k: round(x, 2) for k, x in r.get('times', {}).items()},
                   'callees': {k: m for k, m in meta['fn_mode'].items() if k != meta['target']},
                   'loops': 'loop contracts' if any(c.get('loops') for nn, c in u.get('contracts', {}).items() if nn in meta.get('bodies', [])) else ('unwind %s with unwinding assertions' % u['unwind'] if u.get('unwind') else 'loop-free'),
                   'notes': meta['notes'] + ([r['const_note']] if r.get('const_note') else []), 'back_end': 'cbmc 6.11 SAT (%s)' % (u.get('sat_solver') or 'cadical')}
            fi = meta['fn_info'].get(meta['target'], {})
            fns_under_contract[meta['target']] = '%s::%s [%s:%s]' % (fi.get('owner'), fi.get('name'), os.path.basename(str(fi.get('file'))), fi.get('line'))
            if r['status'] != 'done':
                why = r['reason'] or ''
                if r.get('uncovered_loops'):
                    why = 'loop(s) %s of the lowered code have no loop contract in the spec (new loop?); no failing obligation within the first iterations; ' % ', '.join(r['uncovered_loops']) + why
                undecided.append((uid, v, why))
                rep['status'] = 'undecided'; rep['reason'] = why[:500]
                unit_reports.append(rep)
                continue
            c = classify(u, meta, r)
            rep['obligations'] = c['n']; rep['discharged'] = c['discharged']; rep['canary_fails_as_required'] = c['canary_ok']
            has_loops = any(cc.get('loops') for nn, cc in u.get('contracts', {}).items() if nn in meta.get('bodies', []))
            if r.get('triage') and not c['failed']:
                undecided.append((uid, v, r['triage'] + ', but only bounds of the ghost clock (proof bookkeeping): undecided'))
                rep['status'] = 'undecided'
            elif r.get('triage'):
                # failures found while searching the first iterations of a loop the spec does not know: real failures (paths are only
                # cut), reported; canary / obligation counts do not apply to the truncated run
                rep['status'] = 'failed'; rep['triage'] = r['triage']
            elif not c['canary_ok']:
                undecided.append((uid, v, 'vacuity: the reachability canary did not fail (contradictory requires / unsatisfiable callee contract)'))
                rep['status'] = 'undecided'
            elif c['n'] == 0:
                undecided.append((uid, v, 'vacuity: zero obligations generated'))
                rep['status'] = 'undecided'
            elif has_loops and c['loop_obligations'] == 0:
                undecided.append((uid, v, 'loop contract silently dropped (no loop_invariant obligations)'))
                rep['status'] = 'undecided'
            else:
                # obligations attributed to other properties only (tagged clauses) and recorded known findings are not
                # part of this property's proof obligations
                foreign = 0
                for o in c['failed']:
                    tprops = [t for t in (o.get('tag') or '').split('#')[0].split(',') if t] if '#' in (o.get('tag') or '') else []
                    is_known = o.get('label') and any(k.startswith('known:') and ('property=%s ' % prop) in k and ('unit=%s ' % uid) in k and ('label=%s ' % o['label']) in k + ' ' for k in known)
                    if (tprops and prop not in tprops) or is_known:
                        foreign += 1
                if u.get('instantiation'):
                    rep['instantiation'] = u['instantiation']
                if u.get('bounded'):
                    bounded_n += c['n'] - foreign; bounded_ok += c['discharged']; bounded_units += 1
                    rep['bounded'] = u['bounded']
                else:
                    total_n += c['n'] - foreign; total_ok += c['discharged']
                rep['status'] = 'ok' if not c['failed'] else 'failed'
            for o in c['failed']:
                # a clause tagged with properties is that properties' obligation; untagged obligations (frames, safety,
                # invariants, callee preconditions) belong to every property the unit serves
                # only *labelled* clauses (tag 'Cxx,Cyy#label': recorded findings) are scoped to the properties they name
                tprops = [t for t in (o.get('tag') or '').split('#')[0].split(',') if t] if '#' in (o.get('tag') or '') else []
                if tprops and prop not in tprops:
                    continue
                srcref, ctext = src_of_line(cfile, o.get('line') or 0)
                key = 'property=%s unit=%s obligation=%s' % (prop, uid, o['name'])
                # a known finding is identified by the unit and the *label* of the failed clause (stable under reordering)
                kf = [k for k in known if k.startswith('known:') and ('property=%s ' % prop) in k and ('unit=%s ' % uid) in k and o.get('label') and ('label=%s ' % o['label']) in k + ' ']
                entry = {'unit': uid, 'copy': v, 'label': o.get('label'), 'obligation': o['name'], 'description': o['description'], 'clause': o.get('clause'),
                         'gen_line': o.get('line'), 'repo_src': srcref, 'c_text': ctext, 'trace': o.get('trace')}
                if kf:
                    known_hits.append((kf[0], entry))
                else:
                    violations.append(entry)
            if len(samples) < 12:
                for o in r['obligations']:
                    if o.get('clause') or 'postcondition' in (o['name'] or ''):
                        lines = {int(k): vv for k, vv in meta['lines'].items()}
                        m = lines.get(o.get('line') or -1)
                        samples.append({'unit': uid, 'obligation': o['name'], 'status': o['status'], 'clause': (m or {}).get('text')})
                        break
            unit_reports.append(rep)
        static_facts = []
        # obligations that are not function contracts (layout from the real compilers, absence of allocation, configuration aliases)
        STATIC = {'C18': [('c18_static', 'c18.layout')], 'C04': [('config_static', 'config')], 'C10': [('config_static', 'config')]}
        for modname, sunit in (STATIC.get(prop, []) if not a.unit else []):
            smod = importlib.import_module(modname)
            for o in smod.obligations(work):
                static_facts.append({k: o[k] for k in ('name', 'status', 'detail')})
                if o['status'] == 'UNDECIDED':
                    undecided.append((o['name'], 'include', o['detail'])); continue
                kf = [k for k in known if k.startswith('known:') and ('property=%s ' % prop) in k and ('unit=%s ' % sunit) in k and o.get('label') and ('label=%s ' % o['label']) in k + ' ']
                if o['status'] == 'SUCCESS':
                    total_n += 1; total_ok += 1
                elif kf:
                    if not any(kf[0] == x[0] for x in known_hits):
                        known_hits.append((kf[0], {'unit': sunit, 'obligation': o['name']}))
                else:
                    total_n += 1
                    violations.append({'unit': sunit, 'copy': 'include', 'label': o.get('label'), 'obligation': o['name'], 'description': o['detail'], 'clause': None,
                                       'gen_line': None, 'repo_src': None, 'c_text': None, 'trace': None})
        wall = time.time() - t0
        # 6. evidence
        ev = {
            'property_id': prop, 'tier': a.tier, 'seed': seed, 'level': 'proof',
            'coverage': {
                'obligations': total_n, 'discharged': total_ok,
                'bounded_stand_ins': {'units': bounded_units, 'obligations': bounded_n, 'discharged': bounded_ok,
                                      'note': 'units whose completeness rests on a stated bound (field bounded of each unit report); not included in obligations / discharged above'},
                'checker_cmd': 'goto-cc --function harness <unit>.c; goto-instrument --dfcc harness --enforce-contract <fn> [--replace-call-with-contract <callee>]* [--apply-loop-contracts]; cbmc ' + ' '.join(U.CBMC_CHECKS),
                'trusted_base': TRUSTED_BASE,
                'functions_under_contract': fns_under_contract,
                'units': unit_reports,
                'solver_seconds_total': round(solver_s, 1),
                'samples': samples or [{'note': 'no postcondition obligations in this run'}],
                'two_source': {k: ('identical lowered text from include/ and development/' if v else ('texts differ: both verified' if v is False else 'one copy only')) for k, v in same_text.items()},
                'undecided_units': [{'unit': x[0], 'copy': x[1], 'reason': (x[2] or '')[:600]} for x in undecided],
                'known_findings_hit': [k for k, _ in known_hits],
                'supporting_static_facts': static_facts,
                'assumed_contracts': assumed_summary(lowered, same_text),
            },
            'assumptions': ASSUMPTIONS,
            'wall_s': round(wall, 1),
            'violations': len(violations),
        }
        os.makedirs(os.path.join(HERE, 'evidence'), exist_ok=True)
        with open(os.path.join(HERE, 'evidence', prop + '.json'), 'w') as f:
            json.dump(ev, f, indent=1)
        for k, e in known_hits:
            print('KNOWN-FINDING: property=%s %s' % (prop, k.split('property=%s ' % prop, 1)[1]))
        rc = 0
        if violations:
            import replay
            os.makedirs(os.path.join(HERE, 'replays'), exist_ok=True)
            rp = os.path.join(HERE, 'replays', '%s.json' % prop)
            found = replay.make_replay(prop, violations, rp, work)
            for e in violations[:8]:
                print('FAILED OBLIGATION unit=%s copy=%s %s: %s  [%s] %s' % (e['unit'], e['copy'], e['obligation'], e['description'], e['repo_src'], (e['clause'] or '')[:160]))
            print('VIOLATION property=%s replay=%s%s' % (prop, rp, '' if found else ' no-failing-input-found'))
            rc = 1
        if undecided:
            for uid, v, why in undecided[:10]:
                print('UNDECIDED unit=%s copy=%s: %s' % (uid, v, (why or '').strip().split('\n')[0][:300]))
                if a.show_failed:
                    print(why)
            rc = rc or 2
        print('%s tier=%s units=%d obligations=%d discharged=%d violations=%d undecided=%d wall=%.1fs' % (
            prop, a.tier, len(units), total_n, total_ok, len(violations), len(undecided), wall) + (' bounded_units=%d bounded_obligations=%d/%d' % (bounded_units, bounded_ok, bounded_n) if bounded_units else ''))
        sys.exit(rc)
    finally:
        if a.keep:
            print('work dir kept: ' + work)
        else:
            shutil.rmtree(work, ignore_errors=True)


TRUSTED_BASE = [
    'clang 14 parser and template instantiation (the JSON AST is taken as the meaning of the C++)',
    'tools/cxx2c.py lowering rules C++ AST -> C (classes->structs, references->pointers, temporaries hoisted, RAII destructors made explicit, forward/move as identity)',
    'CBMC 6.11.0, goto-instrument DFCC contract instrumentation, CaDiCaL (SAT back end)',
    'x86-64 type sizes; C semantics of fixed-width integer arithmetic equal to C++ for the lowered expressions',
    'parametricity: a function lowered with symbolic constants stands for all instantiations that differ only in those constants (explicit specialisations are lowered separately; '
    'witnessed builds: int payload / no payload type / payload larger than its alignment, logging on / verbose / compiled out, reference / value context, manual / automatic activation, '
    'states defining all / one / no callbacks; other user state types, payload types and feature-switch combinations are covered by this assumption only)',
    'gcc 12 for the native cross-check of the symbolic-constant bindings on the witness values',
]
ASSUMPTIONS = [
    'symbolic constants range over the values stated in each unit (e.g. capacity 1..255); bindings between constants of different classes are checked against the concrete witness instantiation, not proved',
    'user callbacks and the logger are modelled by contract stubs: any terminating code that acts on the machine only through the control object it is handed; no re-entrant calls into the machine',
    'FFSM2_ASSERT is inert on GCC/Clang; asserted preconditions are written as requires where the contract needs them',
    'termination of callbacks is assumed',
    'contracts restated at a caller\'s abstraction level (coverage.assumed_contracts, status instance-or-restated) are implied by the enforced ones by construction of the contract generators or by '
    'inspection, not by a machine-checked lemma; the preconditions of the plan step on the plan data (well-formed plan, unlocked control) are not established by the R_ units, for which the plan data is opaque',
    'units labelled bounded (task capacity, injections k = 3, payload types int / P8, substitution limit <= 3 in the inlined stand-ins) are complete only within the stated bound',
]

if __name__ == '__main__':
    main()
