"""C10  Plan capacity exact, order-preserving, never leaks: TaskListT (free list) and PlanT (task order).

Representation invariant of TaskListT (ghost-free, executable): with n = _count, L = _last, C = CAPACITY
  n <= C;  n == C  =>  L == C and head == tail == INVALID
  n <  C  =>  the free list is the chain head -> next -> ... -> tail of exactly m = (L < C ? L + 1 - n : C - n) >= 1
              slots, each < C (and <= L while L < C), tail.next == INVALID  (so the m slots are pairwise distinct)
A slot is *live* iff it is <= L (or < C when L == C) and not on that chain.  Every operation is shown to preserve the
invariant from ANY state satisfying it and to meet its postcondition -- induction over histories, so "slots are reusable
indefinitely / from any reachable free-list state" needs no enumeration of histories.
Quick tier: executable predicates with loops, CAPACITY symbolic in 1..8 (bounded in capacity, unbounded in history)."""
from contracts.common import *

W = 'w_machine'
CAPMAX = globals().get('CAPMAX_OVERRIDE', 5)      # quick tier; contracts/deep.py re-runs the same units at a larger bound in the thorough tier
TL_RECS = {'TaskListT': r'^ffsm2::detail::TaskListT<int,\d+>$', 'TaskT': r'^ffsm2::detail::TaskT<int>$', 'TaskBase': r'^ffsm2::detail::TaskBase$'}
CAP = 'TaskListT__CAPACITY'
TL_GHOST = ['''
/* ---- executable representation invariant and model of TaskListT (ghost, never called by lowered code) */
uint8_t g_q;   /* arbitrary slot index */
_Bool g_was_live; /* liveness of slot g_q in the pre-state (fixed by a requires clause; __CPROVER_old cannot wrap a call) */
static _Bool tl_on_free_list(const struct TaskListT *s, uint8_t i)
{
	if (s->_count >= %(CAP)s) return 0;
	uint8_t a = s->_vacantHead;
	for (unsigned k = 0; k < %(MAX)d; ++k) {
		if (a == i) return 1;
		if (a == s->_vacantTail || a >= %(CAP)s) return 0;
		a = s->_items[a]._b0.next;
	}
	return 0;
}
static _Bool tl_live(const struct TaskListT *s, uint8_t i)
{
	if (i >= %(CAP)s) return 0;
	if (s->_last < %(CAP)s && i > s->_last) return 0;
	if (s->_count < %(CAP)s && s->_last < %(CAP)s && s->_count == 0 && s->_last == 0 && s->_vacantHead == 0 && s->_vacantTail == 0) return 0;   /* pristine list: slot 0 is the implicit first vacancy */
	return !tl_on_free_list(s, i);
}
static _Bool tl_wf(const struct TaskListT *s)
{
	if (!(%(CAP)s >= 1 && %(CAP)s <= %(MAX)d)) return 0;
	if (s->_count > %(CAP)s) return 0;
	if (s->_count == %(CAP)s) return s->_last == %(CAP)s && s->_vacantHead == 255 && s->_vacantTail == 255;
	if (s->_last > %(CAP)s) return 0;
	/* pristine / cleared list: head == tail == last == 0 with zero tasks (slot 0 not yet threaded) */
	if (s->_count == 0 && s->_last == 0) return s->_vacantHead == 0 && s->_vacantTail == 0;
	unsigned m = s->_last < %(CAP)s ? (unsigned) s->_last + 1 - s->_count : (unsigned) %(CAP)s - s->_count;
	if (s->_last < %(CAP)s && (unsigned) s->_last + 1 < s->_count) return 0;
	if (m < 1 || m > %(CAP)s) return 0;
	uint8_t a = s->_vacantHead;
	for (unsigned k = 0; k < %(MAX)d; ++k) {
		if (k < m) {
			if (a >= %(CAP)s) return 0;
			if (s->_last < %(CAP)s && a > s->_last) return 0;
			if (k + 1 == m) { if (a != s->_vacantTail || s->_items[a]._b0.next != 255) return 0; }
			else { if (a == s->_vacantTail) return 0; a = s->_items[a]._b0.next; }
		}
	}
	return 1;
}
''' % dict(CAP=CAP, MAX=CAPMAX)]

def tl(id_, target, fn, contract, **kw):
    u = dict(id='c10.tasklist.' + id_, witness=W, recs=TL_RECS, props=['C10', 'C18'], target=dict(cls=TL_RECS['TaskListT'], **target),
             consts={'TaskListT__NCapacity': ('range', 1, CAPMAX)}, array_max={'TaskListT._items': CAPMAX}, ghost=TL_GHOST, need_consts=['TaskListT.CAPACITY'],
             unwindset={'tl_on_free_list.0': CAPMAX + 1, 'tl_wf.0': CAPMAX + 1}, contracts={fn: contract}, bounded='task capacity <= %d (quick tier); the invariant makes it unbounded in history' % CAPMAX)
    u.update(kw)
    return u
SELF = fresh('self')
OLD_ITEM = lambda f: '__CPROVER_old(self->_items[g_q].%s)' % f
SAME_ITEM = ' && '.join('self->_items[g_q].%s == %s' % (f, OLD_ITEM(f)) for f in ('_b0.origin', '_b0.destination', 'payloadSet', 'storage[0]', 'storage[1]', 'storage[2]', 'storage[3]'))

UNITS = [
    tl('clear', dict(name='clear', nparams=0), 'TaskListT__clear', dict(
        requires=[SELF, CAP + ' >= 1'], assigns=['self->_vacantHead', 'self->_vacantTail', 'self->_last', 'self->_count'],
        ensures=[('C10', 'tl_wf(self) && self->_count == 0'), ('C10', '!tl_live(self, g_q)')])),
    tl('count', dict(name='count', nparams=0), 'TaskListT__count', dict(requires=[SELF], assigns=[], ensures=[('C10', '__CPROVER_return_value == self->_count')])),
    tl('index', dict(name='operator[]', nparams=1, const=False), '@target', dict(requires=[SELF, 'i < ' + CAP], assigns=[], ensures=[('C10', '__CPROVER_return_value == &self->_items[i]')])),
    tl('index_c', dict(name='operator[]', nparams=1, const=True), '@target', dict(requires=[SELF, 'i < ' + CAP], assigns=[], ensures=[('C10', '__CPROVER_return_value == &self->_items[i]')])),
    tl('remove', dict(name='remove', nparams=1), 'TaskListT__remove', dict(
        requires=[SELF, 'tl_wf(self)', 'tl_live(self, i)', 'g_q < ' + CAP, 'g_was_live == tl_live(self, g_q)'],
        assigns=['__CPROVER_object_whole(self)'],
        ensures=[('C10', 'tl_wf(self)'), ('C10', 'self->_count == __CPROVER_old(self->_count) - 1'),
                 # exactly slot i left the live set; every other live task is untouched
                 ('C10', '!tl_live(self, i)'),
                 ('C10', implies('g_q != i', 'tl_live(self, g_q) == g_was_live')),
                 ('C10', implies('g_q != i && tl_live(self, g_q)', SAME_ITEM))])),
]

# emplace: two overloads (with / without payload)
ARGS_STORED2 = 'self->_items[__CPROVER_return_value]._b0.origin == *args && self->_items[__CPROVER_return_value]._b0.destination == *args_1 && !self->_items[__CPROVER_return_value].payloadSet'
def emplace_contract(stored, extra_req=[]):
    return dict(
        requires=[SELF, '{fresh:args}', '{fresh:args_1}', 'tl_wf(self)', 'g_q < ' + CAP, 'g_was_live == tl_live(self, g_q)'] + extra_req,
        assigns=['__CPROVER_object_whole(self)'],
        ensures=[('C10', 'tl_wf(self)'),
                 # succeeds exactly when fewer than CAPACITY tasks are present; otherwise INVALID and nothing changes
                 ('C10', implies('__CPROVER_old(self->_count) < ' + CAP, '__CPROVER_return_value < %s && self->_count == __CPROVER_old(self->_count) + 1 && tl_live(self, __CPROVER_return_value)' % CAP)),
                 ('C10', implies('__CPROVER_old(self->_count) >= ' + CAP, '__CPROVER_return_value == 255 && self->_count == __CPROVER_old(self->_count) && self->_last == __CPROVER_old(self->_last) && self->_vacantHead == __CPROVER_old(self->_vacantHead) && self->_vacantTail == __CPROVER_old(self->_vacantTail)')),
                 # the slot handed out was vacant; every task that was live stays live and untouched
                 ('C10', implies('g_q == __CPROVER_return_value', '!g_was_live')),
                 ('C10', implies('g_q != __CPROVER_return_value', 'tl_live(self, g_q) == g_was_live')),
                 ('C10', implies('g_q != __CPROVER_return_value && g_was_live', SAME_ITEM)),
                 ('C10,C07,C17', implies('__CPROVER_return_value != 255', stored))])
UNITS += [
    tl('emplace', dict(name='emplace', nparams=2), '@target', emplace_contract(ARGS_STORED2)),
    tl('emplace_payload', dict(name='emplace', nparams=3), '@target', emplace_contract(
        'self->_items[__CPROVER_return_value]._b0.origin == *args && self->_items[__CPROVER_return_value]._b0.destination == *args_1 && self->_items[__CPROVER_return_value].payloadSet && '
        + ' && '.join('self->_items[__CPROVER_return_value].storage[%d] == ((const uint8_t*)args_2)[%d]' % (j, j) for j in range(4)), ['{fresh:args_2}'])),
]

# =============================================================================================
# PlanT over PlanDataT: order of tasks = chain bounds.first -> next -> ... -> bounds.last through taskLinks
PL_RECS = dict(TL_RECS)
PL_RECS.update({'PlanDataT': r'^ffsm2::detail::PlanDataT<', 'PlanT': r'^ffsm2::detail::PlanT<.*>>$', 'PayloadPlanT': r'^ffsm2::detail::PayloadPlanT<.*>>$', 'CPlanT': r'^ffsm2::detail::CPlanT<.*>>$',
                'TaskLinks': r'^ffsm2::detail::StaticArrayT<ffsm2::detail::TaskLink,\d+>$', 'Payloads': r'^ffsm2::detail::StaticArrayT<int,\d+>$',
                'TasksBits': r'^ffsm2::detail::BitArrayT<\d+>$', 'Bounds': r'^ffsm2::detail::Bounds$', 'TaskLink': r'^ffsm2::detail::TaskLink$',
                'Iterator': r'^ffsm2::detail::PlanT<.*>::Iterator$', 'CIterator': r'^ffsm2::detail::PlanT<.*>::CIterator$', 'ArgsT': r'^ffsm2::detail::ArgsT<', 'TL_': r'^ffsm2::detail::TL_<A,B,C'})
TC = 'PlanT__TASK_CAPACITY'
PL_CONSTS = {'TaskListT__NCapacity': ('range', 1, CAPMAX), 'TaskLinks__NCapacity': ('expr', 'TaskListT__NCapacity'), 'Payloads__NCapacity': ('expr', 'TaskListT__NCapacity'),
             'ArgsT__NTaskCapacity': ('expr', 'TaskListT__NCapacity'), 'TL___sizeof_Ts': ('range', 1, 255), 'TasksBits__NCapacity': ('range', 1, 255), '__assume__': [],
             'G__NSubstitutionLimit': ('range', 1, 255)}
PL_GHOST = TL_GHOST + ['''
uint8_t g_k;        /* arbitrary position in the plan */
uint8_t g_nth;      /* task index at position g_k in the pre-state (fixed by a requires clause) */
uint8_t g_nth1;     /* task index at position g_k + 1 in the pre-state */
uint8_t g_pos;      /* position of the task being removed */
static _Bool pl_wf(const struct PlanDataT *pd)
{
	if (!tl_wf(&pd->tasks)) return 0;
	const uint8_t n = pd->tasks._count;
	for (unsigned i = 0; i < %(MAX)d; ++i)
		if (i < %(CAP)s && !tl_live(&pd->tasks, (uint8_t) i) && (pd->taskLinks._items[i].prev != 255 || pd->taskLinks._items[i].next != 255)) return 0;
	if (n == 0) return pd->tasksBounds.first == 255 && pd->tasksBounds.last == 255;
	uint8_t a = pd->tasksBounds.first, prev = 255;
	for (unsigned k = 0; k < %(MAX)d; ++k) {
		if (k < n) {
			if (a >= %(CAP)s || !tl_live(&pd->tasks, a)) return 0;
			if (pd->taskLinks._items[a].prev != prev) return 0;
			if (k + 1 == n) { if (a != pd->tasksBounds.last || pd->taskLinks._items[a].next != 255) return 0; }
			else { prev = a; a = pd->taskLinks._items[a].next; }
		}
	}
	return 1;
}
/* task index at position k of the plan (255 past the end) */
static uint8_t pl_nth(const struct PlanDataT *pd, uint8_t k)
{
	if (k >= pd->tasks._count) return 255;
	uint8_t a = pd->tasksBounds.first;
	for (unsigned j = 0; j < %(MAX)d; ++j) { if (j < k) { if (a >= %(CAP)s) return 255; a = pd->taskLinks._items[a].next; } }
	return a;
}
''' % dict(CAP=CAP, MAX=CAPMAX)]
PD = 'self->_planData'
PL_SELF = [fresh('self'), fresh(PD, '*' + PD), 'self->_bounds == &%s->tasksBounds' % PD]
PL_UNWIND = {'tl_on_free_list.0': CAPMAX + 1, 'tl_wf.0': CAPMAX + 1, 'pl_wf.0': CAPMAX + 1, 'pl_wf.1': CAPMAX + 1, 'pl_nth.0': CAPMAX + 1}
def pl(id_, target, fn, contract, cls=None, **kw):
    # (C08 too: "tasks that do not fire stay in the plan in their original order" rests on the same list structure)
    u = dict(id='c10.plan.' + id_, witness=W, recs=PL_RECS, opaque=[r'^Ctx$', r'LoggerInterfaceT<'], props=['C10', 'C08', 'C18'],
             target=dict(cls=cls or r'^ffsm2::detail::PlanT<.*>>$', **target), consts=PL_CONSTS, ghost=PL_GHOST,
             array_max={'TaskListT._items': CAPMAX, 'TaskLinks._items': CAPMAX, 'Payloads._items': CAPMAX, 'TasksBits._storage': 32},
             need_consts=['TaskListT.CAPACITY', 'PlanT.TASK_CAPACITY'], unwindset=dict(PL_UNWIND), contracts={fn: contract},
             bounded='task capacity <= %d (quick tier)' % CAPMAX)
    extra = kw.pop('extra_contracts', None)
    if extra:
        u['contracts'] = dict(u['contracts'], **extra)
    sp = kw.pop('contracts_self', None)
    if sp:
        # the same contract for a class that holds the PlanT as a base sub-object
        def r(x):
            return x.replace('self->_planData', sp + '._planData').replace('self->_bounds', sp + '._bounds')
        c = dict(contract)
        for k in ('requires', 'assigns'):
            c[k] = [r(x) for x in c[k]]
        c['ensures'] = [(e[0], r(e[1])) if isinstance(e, tuple) else r(e) for e in c['ensures']]
        u['contracts'] = {fn: c}
    u.update(kw)
    return u
FIX_NTH = ['g_nth == pl_nth(%s, g_k)' % PD, 'g_nth1 == pl_nth(%s, (uint8_t)(g_k + 1))' % PD, 'g_k < %d' % CAPMAX]
CNT = PD + '->tasks._count'
OLDCNT = '__CPROVER_old(%s)' % CNT
WF = 'pl_wf(%s)' % PD
def append_contract(stored, extra_req=[]):
    return dict(
        requires=PL_SELF + FIX_NTH + [WF] + extra_req,
        assigns=['__CPROVER_object_whole(%s)' % PD],
        ensures=[('C10', WF),
                 # appending succeeds exactly when fewer than capacity tasks are present ...
                 ('C10', '__CPROVER_return_value == (%s < %s)' % (OLDCNT, TC)),
                 ('C10', implies('__CPROVER_return_value', '%s == %s + 1' % (CNT, OLDCNT))),
                 # ... the new task goes to the end, earlier tasks keep their positions (append order)
                 ('C10', implies('__CPROVER_return_value', 'pl_nth(%s, %s) < %s && %s' % (PD, OLDCNT, CAP, stored))),
                 ('C10', implies('g_k < %s' % OLDCNT, 'pl_nth(%s, g_k) == g_nth' % PD)),
                 # ... otherwise it returns false and leaves the plan untouched
                 ('C10', implies('!__CPROVER_return_value', '%s == %s' % (CNT, OLDCNT)))])
def stored(idx):
    return '%s->tasks._items[%s]._b0.origin == origin && %s->tasks._items[%s]._b0.destination == destination' % (PD, idx, PD, idx)
NEW = 'pl_nth(%s, %s)' % (PD, OLDCNT)
UNITS += [
    pl('append', dict(name='append', nparams=2), 'PlanT__append', append_contract(stored(NEW) + ' && !%s->tasks._items[%s].payloadSet' % (PD, NEW))),
    pl('append_payload', dict(name='append', nparams=3), 'PayloadPlanT__append', append_contract(
        stored(NEW) + ' && %s->tasks._items[%s].payloadSet && ' % (PD, NEW) + ' && '.join('%s->tasks._items[%s].storage[%d] == ((const uint8_t*)payload)[%d]' % (PD, NEW, j, j) for j in range(4)),
        [fresh('payload')]), cls=r'^ffsm2::detail::PayloadPlanT<.*>>$', props=['C10', 'C07', 'C18'],
       contracts_self='self->_b0'),
]

TASK_SAME = lambda idx: ' && '.join('%s->tasks._items[%s].%s == __CPROVER_old(%s->tasks._items[%s].%s)' % (PD, idx, f, PD, idx, f)
                                    for f in ('_b0.origin', '_b0.destination', 'payloadSet', 'storage[0]', 'storage[1]', 'storage[2]', 'storage[3]'))
UNITS += [
    # removal (through an iterator or by consumption): exactly that task leaves, the rest keep their relative order
    pl('remove', dict(name='remove', nparams=1), 'PlanT__remove', dict(
        requires=PL_SELF + FIX_NTH + [WF, 'g_pos < %s && pl_nth(%s, g_pos) == index' % (CNT, PD), 'g_q < ' + CAP, 'g_was_live == tl_live(&%s->tasks, g_q)' % PD],
        assigns=['__CPROVER_object_whole(%s)' % PD],
        ensures=[('C10', WF), ('C10', '%s == %s - 1' % (CNT, OLDCNT)),
                 ('C10', 'pl_nth(%s, g_k) == (g_k < g_pos ? g_nth : g_nth1)' % PD),
                 ('C10', implies('g_q != index && g_was_live', 'tl_live(&%s->tasks, g_q) && %s' % (PD, TASK_SAME('g_q')))),
                 ('C10', '!tl_live(&%s->tasks, index)' % PD)])),
    # clear: every slot becomes available again (full capacity after any history)
    pl('clearTasks', dict(name='clearTasks', nparams=0), 'PlanT__clearTasks', dict(
        requires=PL_SELF + [WF],
        assigns=['__CPROVER_object_whole(%s)' % PD],
        ensures=[('C10', WF), ('C10', '%s == 0' % CNT), ('C10', '%s->tasksBounds.first == 255 && %s->tasksBounds.last == 255' % (PD, PD))]),
       unwindset=dict(PL_UNWIND, **{'PlanT__clearTasks.0': CAPMAX + 1})),
    pl('op_bool', dict(name='operator bool', nparams=0), 'PlanT__op_bool', dict(
        requires=PL_SELF + [WF], assigns=[],
        ensures=[('C10', '__CPROVER_return_value == (%s != 0)' % CNT)])),
]

# ---- iterators: begin at the first task, ++ moves to the cached next, which survives removal of the current task
IPD = 'self->_plan->_planData'
IT_SELF = [fresh('self'), fresh('self->_plan', '*self->_plan'), fresh(IPD, '*' + IPD), 'self->_plan->_bounds == &%s->tasksBounds' % IPD, 'pl_wf(%s)' % IPD, 'g_k < %d' % CAPMAX]
def it_unit(id_, cls, target, fn, contract, **kw):
    return pl(id_, target, fn, contract, cls=cls, **kw)
IT = r'^ffsm2::detail::PlanT<.*>::Iterator$'
UNITS += [
    it_unit('Iterator.ctor', IT, dict(kind='ctor', name='Iterator', nparams=1), 'Iterator__ctor1', dict(
        requires=[fresh('self'), fresh('plan'), fresh('plan->_planData', '*plan->_planData'), 'plan->_bounds == &plan->_planData->tasksBounds', 'pl_wf(plan->_planData)'],
        assigns=['*self'],
        ensures=[('C10', 'self->_plan == plan && self->_curr == pl_nth(plan->_planData, 0) && self->_next == pl_nth(plan->_planData, 1)')])),
    it_unit('Iterator.op_bool', IT, dict(name='operator bool', nparams=0), 'Iterator__op_bool', dict(
        requires=IT_SELF + ['self->_curr == pl_nth(%s, g_k)' % IPD], assigns=[],
        # iteration ends exactly past the last task
        ensures=[('C10', '__CPROVER_return_value == (g_k < %s->tasks._count)' % IPD)])),
    it_unit('Iterator.op_inc', IT, dict(name='operator++', nparams=0), 'Iterator__op_inc', dict(
        # the cached next is the task at position g_k (normally old position + 1; after it.remove() the task that moved up)
        requires=IT_SELF + ['self->_next == pl_nth(%s, g_k)' % IPD], assigns=['self->_curr', 'self->_next'],
        ensures=[('C10', 'self->_curr == pl_nth(%s, g_k) && self->_next == pl_nth(%s, (uint8_t)(g_k + 1))' % (IPD, IPD))])),
    it_unit('Iterator.remove', IT, dict(name='remove', nparams=0), 'Iterator__remove', dict(
        requires=IT_SELF + ['g_k < %s->tasks._count' % IPD, 'self->_curr == pl_nth(%s, g_k)' % IPD, 'self->_next == pl_nth(%s, (uint8_t)(g_k + 1))' % IPD],
        assigns=['__CPROVER_object_whole(%s)' % IPD],
        # removing through the iterator does not disturb iteration over the rest: the cached next is the task now at this position
        ensures=[('C10', 'pl_wf(%s)' % IPD), ('C10', '%s->tasks._count == __CPROVER_old(%s->tasks._count) - 1' % (IPD, IPD)),
                 ('C10', 'self->_next == pl_nth(%s, g_k)' % IPD)])),
]

CPD = 'self->_planData'
CP_SELF = [fresh('self'), fresh(CPD, '*' + CPD), 'self->_bounds == &%s->tasksBounds' % CPD, 'pl_wf(%s)' % CPD]
CP = r'^ffsm2::detail::CPlanT<.*>>$'
def cp_unit(id_, target, fn, contract):
    return pl(id_, target, fn, contract, cls=CP, need_consts=['TaskListT.CAPACITY', 'CPlanT.TASK_CAPACITY'])
UNITS += [
    cp_unit('CPlan.op_bool', dict(name='operator bool', nparams=0), 'CPlanT__op_bool', dict(requires=CP_SELF, assigns=[],
            ensures=[('C10', '__CPROVER_return_value == (%s->tasks._count != 0)' % CPD)])),
    cp_unit('CPlan.first', dict(name='first', nparams=0), 'CPlanT__first', dict(requires=CP_SELF + ['%s->tasks._count != 0' % CPD], assigns=[],
            ensures=[('C10', '__CPROVER_return_value == &%s->tasks._items[pl_nth(%s, 0)]' % (CPD, CPD))])),
    cp_unit('CPlan.last', dict(name='last', nparams=0), 'CPlanT__last', dict(requires=CP_SELF + ['%s->tasks._count != 0' % CPD], assigns=[],
            ensures=[('C10', '__CPROVER_return_value == &%s->tasks._items[pl_nth(%s, (uint8_t)(%s->tasks._count - 1))]' % (CPD, CPD, CPD))])),
    # PlanT::clear(): all tasks released, every task report dropped (loop over the state count closed by a loop contract)
    pl('clear', dict(name='clear', nparams=0), 'PlanT__clear', dict(
        requires=PL_SELF + [WF],
        assigns=['__CPROVER_object_whole(%s)' % PD],
        ensures=[('C10', WF), ('C10', '%s == 0' % CNT), ('C09', '%s->planExists == __CPROVER_old(%s->planExists)' % (PD, PD)),
                 ('C08', implies('g_q < PlanT__STATE_COUNT', bit('%s->tasksSuccesses._storage' % PD, 'g_q') + ' == 0 && ' + bit('%s->tasksFailures._storage' % PD, 'g_q') + ' == 0'))],
        loops={0: dict(assigns=['i', '%s->tasksSuccesses' % PD, '%s->tasksFailures' % PD],
                       invariant=['i <= PlanT__STATE_COUNT',
                                  implies('g_q < i', bit('%s->tasksSuccesses._storage' % PD, 'g_q') + ' == 0 && ' + bit('%s->tasksFailures._storage' % PD, 'g_q') + ' == 0')],
                       decreases='PlanT__STATE_COUNT - i')}),
       extra_contracts={'PlanT__clearTasks': dict(requires=[], assigns=['__CPROVER_object_whole(self->_planData)'],
                                                  ensures=['pl_wf(self->_planData)', 'self->_planData->tasks._count == 0', 'self->_planData->planExists == __CPROVER_old(self->_planData->planExists)'])},
       calls={'PlanT__clearTasks': 'contract'}, need_consts=['TaskListT.CAPACITY', 'PlanT.TASK_CAPACITY', 'PlanT.STATE_COUNT', 'TasksBits.CAPACITY'],
       consts=dict(PL_CONSTS, TasksBits__NCapacity=('expr', 'TL___sizeof_Ts'))),
]

# ---- the const view: CPlanT::Iterator walks the same chain (read-only: nothing of the plan in any frame)
CIT = r'^ffsm2::detail::CPlanT<.*>::Iterator$'
def cit_unit(id_, target, fn, contract):
    return pl(id_, target, fn, contract, cls=CIT, need_consts=['TaskListT.CAPACITY', 'CPlanT.TASK_CAPACITY'])
CIT_SELF = [fresh('self'), fresh('self->_plan', '*self->_plan'), fresh(IPD, '*' + IPD), 'self->_plan->_bounds == &%s->tasksBounds' % IPD, 'pl_wf(%s)' % IPD, 'g_k < %d' % CAPMAX]
UNITS += [
    cit_unit('CPlan.Iterator.ctor', dict(kind='ctor', name='Iterator', nparams=1), '@target', dict(
        requires=[fresh('self'), fresh('plan'), fresh('plan->_planData', '*plan->_planData'), 'plan->_bounds == &plan->_planData->tasksBounds', 'pl_wf(plan->_planData)'],
        assigns=['*self'],
        ensures=[('C10', 'self->_plan == plan && self->_curr == pl_nth(plan->_planData, 0) && self->_next == pl_nth(plan->_planData, 1)')])),
    cit_unit('CPlan.Iterator.op_bool', dict(name='operator bool', nparams=0), '@target', dict(
        requires=CIT_SELF + ['self->_curr == pl_nth(%s, g_k)' % IPD], assigns=[],
        ensures=[('C10', '__CPROVER_return_value == (g_k < %s->tasks._count)' % IPD)])),
    cit_unit('CPlan.Iterator.op_inc', dict(name='operator++', nparams=0), '@target', dict(
        requires=CIT_SELF + ['self->_next == pl_nth(%s, g_k)' % IPD], assigns=['self->_curr', 'self->_next'],
        ensures=[('C10', 'self->_curr == pl_nth(%s, g_k) && self->_next == pl_nth(%s, (uint8_t)(g_k + 1))' % (IPD, IPD))])),
    cit_unit('CPlan.Iterator.op_arrow', dict(name='operator->', nparams=0), '@target', dict(
        requires=CIT_SELF + ['g_k < %s->tasks._count' % IPD, 'self->_curr == pl_nth(%s, g_k)' % IPD], assigns=[],
        ensures=[('C10', '__CPROVER_return_value == &%s->tasks._items[pl_nth(%s, g_k)]' % (IPD, IPD))])),
    cp_unit('CPlan.begin', dict(name='begin', nparams=0), '@target', dict(requires=CP_SELF, assigns=[],
            ensures=[('C10', '__CPROVER_return_value._plan == self && __CPROVER_return_value._curr == pl_nth(%s, 0) && __CPROVER_return_value._next == pl_nth(%s, 1)' % (CPD, CPD))])),
]
UNITS += [
    it_unit('Iterator.op_arrow', IT, dict(name='operator->', nparams=0), '@target', dict(
        requires=IT_SELF + ['g_k < %s->tasks._count' % IPD, 'self->_curr == pl_nth(%s, g_k)' % IPD], assigns=[],
        ensures=[('C10', '__CPROVER_return_value == &%s->tasks._items[pl_nth(%s, g_k)]' % (IPD, IPD))])),
    pl('begin', dict(name='begin', nparams=0), '@target', dict(
        requires=PL_SELF + [WF], assigns=[],
        ensures=[('C10', '__CPROVER_return_value._plan == self && __CPROVER_return_value._curr == pl_nth(%s, 0) && __CPROVER_return_value._next == pl_nth(%s, 1)' % (PD, PD))])),
]
# the precondition every PlanT / CPlanT unit starts from (the view refers to the plan data and to *its* bounds) is what the constructors establish
UNITS += [
    pl('ctor', dict(kind='ctor', name='PlanT', nparams=1), '@target', dict(
        requires=[fresh('self'), '{fresh:{p0}}'], assigns=['*self'],
        ensures=[('C10', 'self->_planData == {p0} && self->_bounds == &{p0}->tasksBounds')])),
    cp_unit('CPlan.ctor', dict(kind='ctor', name='CPlanT', nparams=1), '@target', dict(
        requires=[fresh('self'), '{fresh:{p0}}'], assigns=['*self'],
        ensures=[('C10', 'self->_planData == {p0} && self->_bounds == &{p0}->tasksBounds')])),
]
