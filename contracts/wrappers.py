"""The type-based and convenience forms of the public API: thin wrappers that forward to a function already under contract.

  control.changeTo<T>() / changeWith<T>(p) / succeed() / fail() / succeed<T>() / fail<T>()
  machine.changeTo<T>() / immediateChangeTo<T>() / changeWith<T>(p) / immediateChangeWith<T>(p) / succeed<T>() / fail<T>() / isActive<T>()
  plan.change(o, d) / change<TO, TD>() / changeWith(o, d, p) / changeWith<TO, TD>(p)

Each unit: the wrapper lowered from the AST, the function it forwards to replaced by *the very contract dict* its own unit
enforces, and as the wrapper's contract that same contract with the forwarded argument substituted (the id of the state
type in the witness: A = 0, B = 1, C = 2; ids of state types come from template metaprogramming and reach the lowered code
as the constant Const<N>, bound to the witness value).  A wrapper that forwards the wrong thing fails its postcondition."""
import copy, re
from contracts.common import *
from contracts.machine import *
import contracts.machine as M
import contracts.control as CT
import contracts.plans as PL
import contracts.c10 as C10

IDS = {'A': 0, 'B': 1, 'C': 2}


def _sub(x, subst):
    if isinstance(x, str):
        for k, v in subst.items():
            x = re.sub(r'(?<![A-Za-z0-9_>.])%s(?![A-Za-z0-9_])' % re.escape(k), v, x) if not k.startswith('{') else x.replace(k, v)
        return x
    if isinstance(x, tuple):
        return tuple(_sub(y, subst) for y in x)
    if isinstance(x, list):
        return [_sub(y, subst) for y in x]
    if isinstance(x, dict):
        return {k: _sub(v, subst) for k, v in x.items()}
    return x


def by_id(mod, uid):
    return [u for u in mod.UNITS if u['id'] == uid][0]


def target_contract(u):
    k = '@target' if '@target' in u['contracts'] else next(iter(u['contracts']))
    return k, u['contracts'][k]


def wrapper(base, new_id, name, nparams, subst, targs=None, const_vals=(), base_fn=None, drop_fresh=(), extra_target=None, props=None, cls=None, **kw):
    """base: the unit of the function forwarded to; subst: parameter name of that function -> expression in the wrapper"""
    bk, bc = target_contract(base)
    wc = _sub(copy.deepcopy(bc), subst)
    # the wrapper forwards: history-variable definitions of the function it forwards to pass through it
    wc['assigns'] = list(wc.get('assigns') or []) + list(wc.pop('assigns_callee', []) or [])
    wc['ensures'] = list(wc.get('ensures') or []) + list(wc.pop('ensures_callee', []) or [])
    # parameters that no longer exist in the wrapper: drop their is_fresh clauses
    for k in ('requires', 'requires_target'):
        if wc.get(k):
            wc[k] = [x for x in wc[k] if not any(d in x for d in drop_fresh)]
    u = dict(base)
    u['id'] = new_id
    t = dict(base['target']); t['name'] = name; t['nparams'] = nparams
    t.pop('sig', None); t.pop('const', None)
    if cls:
        t['cls'] = cls
    if targs:
        t['targs'] = targs
    else:
        t.pop('targs', None)
    if extra_target:
        t.update(extra_target)
    u['target'] = t
    fn = base_fn or bk
    contracts = {'@target': wc}
    for k, c in base['contracts'].items():
        if k != bk:
            contracts[k] = dict(c, optional=True)
    calls = dict(base.get('calls', {}))
    if kw.pop('inline', False):
        pass                                  # the function forwarded to is small library code: lowered as a body
    elif fn == '@target':
        pat = kw.pop('base_re')
        contracts['@re:' + pat] = dict(bc)
        calls['re:' + pat] = 'contract'
    else:
        contracts[fn] = dict(bc)
        calls[fn] = 'contract'
    # look-alike functions the wrapper could forward to by mistake: under their own contracts too
    for sfn, sc in kw.pop('siblings', []):
        contracts[sfn] = dict(sc, optional=True)
        calls[sfn] = 'contract'
    u['contracts'] = contracts
    u['calls'] = calls
    if const_vals:
        # Const<N> is one lowered constant; a wrapper over two state types would need two: those are bound by position below
        u['consts'] = dict(base.get('consts', {}), **{('Const__N' if i == 0 else 'Const_%d__N' % (i + 1)): ('value', v) for i, v in enumerate(const_vals)})
    if props:
        u['props'] = props
    u.update(kw)
    return u


UNITS = []
# ---- controls
chg = by_id(CT, 'control.changeTo')
chw = by_id(CT, 'control.changeWith')
suc = by_id(PL, 'plans.Control.succeed')
fai = by_id(PL, 'plans.Control.fail')
UNITS += [
    wrapper(chg, 'wrappers.Control.changeTo_T', 'changeTo', 0, {'stateId_': '0'}, targs=r'^A$', const_vals=(0,)),
    wrapper(chw, 'wrappers.Control.changeWith_T', 'changeWith', 1, {'stateId_': '0'}, targs=r'^A$', const_vals=(0,)),
    wrapper(suc, 'wrappers.Control.succeed_T', 'succeed', 0, {'stateId_': '0'}, targs=r'^A$', const_vals=(0,), inline=True),
    wrapper(fai, 'wrappers.Control.fail_T', 'fail', 0, {'stateId_': '0'}, targs=r'^A$', const_vals=(0,), inline=True),
    # succeed() / fail() without argument: the calling state itself
    wrapper(suc, 'wrappers.Control.succeed_self', 'succeed', 0, {'stateId_': 'self->_b0._b0._originId'}, extra_target={'targs': r'^$'}, inline=True),
    wrapper(fai, 'wrappers.Control.fail_self', 'fail', 0, {'stateId_': 'self->_b0._b0._originId'}, extra_target={'targs': r'^$'}, inline=True),
]
# ---- machine
rchg = by_id(M, 'root.changeTo')
rimm = by_id(M, 'root.immediateChangeTo')
rsuc = by_id(PL, 'plans.R_.succeed')
rfai = by_id(PL, 'plans.R_.fail')
ract = by_id(CT, 'control.R_.isActive')
UNITS += [
    wrapper(rchg, 'wrappers.R_.changeTo_T', 'changeTo', 0, {'stateId_': '1'}, targs=r'^B$', const_vals=(1,), siblings=[('R___immediateChangeTo__1', target_contract(rimm)[1])]),
    wrapper(rimm, 'wrappers.R_.immediateChangeTo_T', 'immediateChangeTo', 0, {'stateId_': '1'}, targs=r'^B$', const_vals=(1,)),
    wrapper(rsuc, 'wrappers.R_.succeed_T', 'succeed', 0, {'stateId_': '0'}, targs=r'^A$', const_vals=(0,), inline=True),
    wrapper(rfai, 'wrappers.R_.fail_T', 'fail', 0, {'stateId_': '0'}, targs=r'^A$', const_vals=(0,), inline=True),
    wrapper(ract, 'wrappers.R_.isActive_T', 'isActive', 0, {'{p0}': '0'}, targs=r'^A$', const_vals=(0,), inline=True),
]
rcw = by_id(M, 'root.RV_.changeWith')
ricw = by_id(M, 'root.RV_.immediateChangeWith')
UNITS += [
    wrapper(rcw, 'wrappers.RP_.changeWith_T', 'changeWith', 1, {'stateId_': '2'}, targs=r'^C$', const_vals=(2,), siblings=[('RP___immediateChangeWith__2', target_contract(ricw)[1])]),
    wrapper(ricw, 'wrappers.RP_.immediateChangeWith_T', 'immediateChangeWith', 1, {'stateId_': '2'}, targs=r'^C$', const_vals=(2,)),
]
# ---- plan
app = by_id(C10, 'c10.plan.append')
appp = by_id(C10, 'c10.plan.append_payload')
UNITS += [
    wrapper(app, 'wrappers.Plan.change', 'change', 2, {}),
    wrapper(app, 'wrappers.Plan.change_TT', 'change', 0, {'origin': '0', 'destination': '1'}, targs=r'^A,B$', const_vals=(0, 1)),
    wrapper(appp, 'wrappers.Plan.changeWith', 'changeWith', 3, {}),
    wrapper(appp, 'wrappers.Plan.changeWith_TT', 'changeWith', 1, {'origin': '0', 'destination': '1'}, targs=r'^A,B$', const_vals=(0, 1)),
]
