"""Root layer R_: request processing (C02, C03, C04, C11), activation, history."""
from contracts.common import *

W = 'w_machine'
RECS = {
    'R_': r'^ffsm2::detail::R_<',
    'CoreT': r'^ffsm2::detail::CoreT<',
    'TransitionT': r'^ffsm2::detail::TransitionT<int>$',
    'TransitionBase': r'^ffsm2::detail::TransitionBase$',
    'Registry': r'^ffsm2::detail::Registry$',
    'C_': r'^ffsm2::detail::C_<',
    'PlanControlT': r'^ffsm2::detail::PlanControlT<',
    'ControlT': r'^ffsm2::detail::ControlT<',
    'GuardControlT': r'^ffsm2::detail::GuardControlT<',
    'FullControlT': r'^ffsm2::detail::FullControlT<',
    'FullControlBaseT': r'^ffsm2::detail::FullControlBaseT<',
    'PlanDataT': r'^ffsm2::detail::PlanDataT<',
}
ROOT = dict(witness=W, recs=RECS, opaque=[r'^ffsm2::detail::C_<', r'^ffsm2::detail::PlanDataT<', r'^Ctx$', r'LoggerInterfaceT<'])


N = 'ArgsT__STATE_COUNT'
L = 'R___SUBSTITUTION_LIMIT'
RECS.update({'ArgsT': r'^ffsm2::detail::ArgsT<', 'TL_': r'^ffsm2::detail::TL_<A,B,C'})
CONSTS = {'G__NSubstitutionLimit': ('range', 1, 255), 'TL___sizeof_Ts': ('range', 1, 255), 'S___NStateId': ('range', 0, 255)}

# ---- ghost state shared by the root units (see DESIGN.md section 3.2)
GHOST = [
    '/* survivor: the most recent pending transition that the guards did not cancel (history variable,',
    '   defined by the return value of the guard evaluation) */',
    'struct TransitionT g_surv; _Bool g_has_surv;',
    'uint32_t g_rounds;          /* number of guard evaluations in this processing step */',
]
def t_eq(a, b):
    """field-wise equality of two TransitionT lvalues (payload bytes included)"""
    return ('(%s._b0.origin == %s._b0.origin && %s._b0.destination == %s._b0.destination && %s._b0.method == %s._b0.method && '
            '%s.payloadSet == %s.payloadSet && %s.storage[0] == %s.storage[0] && %s.storage[1] == %s.storage[1] && %s.storage[2] == %s.storage[2] && %s.storage[3] == %s.storage[3])'
            % ((a, b) * 8))
def t_empty(a):
    return '(%s._b0.destination == 255)' % a
def t_default(a):
    return '(%s._b0.destination == 255 && %s._b0.origin == 255 && %s._b0.method == Method__NONE && !%s.payloadSet)' % (a, a, a, a)
def req_ok(a):
    return '(%s._b0.destination == 255 || %s._b0.destination < %s)' % (a, a, N)

GUARDS_CONTRACT = dict(
    requires=['__CPROVER_r_ok(currentTransition, sizeof(*currentTransition))', '__CPROVER_r_ok(pendingTransition, sizeof(*pendingTransition))',
              # C03: the guards are consulted for exactly the request being evaluated, which is the one staged in the registry
              'self->_core.registry.requested == pendingTransition->_b0.destination',
              'pendingTransition->_b0.destination < ' + N, 'self->_core.registry.active < ' + N,
              # C06/C07: "the transition accepted so far" shown to the guards is the survivor
              implies('g_has_surv', t_eq('(*currentTransition)', 'g_surv')), implies('!g_has_surv', t_default('(*currentTransition)'))],
    assigns=['self->_core.request', 'self->_core.planData', 'g_rounds', 'g_surv', 'g_has_surv'],
    ensures=['g_rounds == __CPROVER_old(g_rounds) + 1',
             implies('!__CPROVER_return_value', 'g_has_surv && ' + t_eq('g_surv', '(*pendingTransition)')),
             implies('__CPROVER_return_value', 'g_has_surv == __CPROVER_old(g_has_surv) && ' + t_eq('g_surv', '__CPROVER_old(g_surv)')),
             req_ok('self->_core.request')])

CHANGE_CONTRACT = dict(
    requires=['control->_b0._core->registry.requested < ' + N, 'control->_b0._core->registry.active < ' + N,
              # C07/C11: enter()/reenter() of the destination see the surviving transition as the current one
              'g_has_surv', t_eq('(*control->_currentTransition)', 'g_surv'),
              'control->_b0._core->registry.requested == g_surv._b0.destination'],
    assigns=['control->_b0._core->registry', 'control->_b0._core->planData'],
    ensures=['control->_b0._core->registry.active == __CPROVER_old(control->_b0._core->registry.requested)',
             'control->_b0._core->registry.requested == 255'])

UNITS = [
    dict(ROOT, id='root.processTransitions', props=['C02', 'C03', 'C04', 'C07', 'C11', 'C18'],
         target=dict(cls=r'^ffsm2::detail::R_<', name='processTransitions', nparams=1),
         calls={'R___cancelledByGuards': 'contract', 'C___deepChangeToRequested': 'contract'},
         consts=CONSTS, need_consts=['ArgsT.STATE_COUNT'], ghost=GHOST,
         contracts={
             'R___processTransitions': dict(
                 requires=[fresh('self'), fresh('currentTransition'),
                           'self->_core.request._b0.destination < ' + N, 'self->_core.registry.active < ' + N,
                           t_default('(*currentTransition)'), 'g_rounds == 0', '!g_has_surv'],
                 assigns=['__CPROVER_object_whole(self)', '*currentTransition', 'g_rounds', 'g_surv', 'g_has_surv'],
                 ensures=[('C04', 'g_rounds <= ' + L),
                          ('C02', implies('g_has_surv', 'self->_core.registry.active == g_surv._b0.destination')),
                          ('C02', implies('!g_has_surv', 'self->_core.registry.active == __CPROVER_old(self->_core.registry.active)')),
                          ('C11', implies('g_has_surv', t_eq('(*currentTransition)', 'g_surv'))),
                          ('C11', implies('!g_has_surv', t_empty('(*currentTransition)'))),
                          ('C01', 'self->_core.registry.requested == 255'),
                          ('C04', req_ok('self->_core.request'))],
                 loops={0: dict(
                     assigns=['i', '__CPROVER_object_whole(self)', '*currentTransition', 'pendingTransition', 'g_rounds', 'g_surv', 'g_has_surv'],
                     invariant=['i <= ' + L, 'g_rounds <= i',
                                'control._currentTransition == currentTransition && control._b0._core == &self->_core',
                                implies('g_has_surv', t_eq('(*currentTransition)', 'g_surv') + ' && g_surv._b0.destination < ' + N),
                                implies('!g_has_surv', t_default('(*currentTransition)')),
                                # the destination that deepChangeToRequested will enter is the survivor's (this is what F1 broke)
                                implies('g_has_surv', 'self->_core.registry.requested == g_surv._b0.destination'),
                                req_ok('self->_core.request'),
                                'self->_core.registry.active == __CPROVER_loop_entry(self->_core.registry.active)'],
                     decreases=L + ' - i')}),
             'R___cancelledByGuards': GUARDS_CONTRACT,
             'C___deepChangeToRequested': CHANGE_CONTRACT}),
]

def draft(name, nparams, **kw):
    return dict(ROOT, id='root.draft.'+name, props=['DRAFT'], target=dict(cls=r'^ffsm2::detail::R_<', name=name, nparams=nparams, **kw),
                consts=CONSTS, ghost=GHOST, default_call='contract', draft=True,
                calls={'re:^(Transition|Registry__|TaskStatus|ControlT__ctor|PlanControlT__ctor|FullControl.*__ctor|GuardControlT__ctor|ConstControlT__ctor)': 'body'})
DRAFTS = [draft('processRequest', 0), draft('cancelledByGuards', 2), draft('cancelledByEntryGuards', 2), draft('initialEnter', 0), draft('finalExit', 0),
          draft('update', 0), draft('react', 1), draft('query', 1), draft('changeTo', 1), draft('immediateChangeTo', 1), draft('replayTransition', 1)]

RECS2 = dict(RECS); RECS2.update({'S_': r'^ffsm2::detail::S_<0,.*,A>$', 'S_head': r'^ffsm2::detail::S_<255,', 'CS_': r'^ffsm2::detail::CS_<0,.*,0,ffsm2::detail::TL_<A,B,C>>$', 'A_': r'^ffsm2::detail::A_<ffsm2::detail::B_<'})
def draft2(cls, name, nparams, **kw):
    return dict(witness=W, recs=RECS2, opaque=[r'^ffsm2::detail::PlanDataT<', r'^Ctx$', r'LoggerInterfaceT<'], opaque_keep={'PlanDataT': ['headStatus', 'subStatus', 'planExists']}, id='root.draft2.'+cls[16:18].strip('<_')+'.'+name, props=['DRAFT'],
                target=dict(cls=cls, name=name, nparams=nparams, **kw), consts=CONSTS, ghost=GHOST, default_call='contract', draft=True,
                calls={'re:^(Transition|Registry__|TaskStatus|ControlT__|PlanControlT__|FullControl.*__ctor|GuardControlT__ctor|ConstControlT__|C___compo|C___headStatus|C___subStatus|op_or)': 'body'})
DRAFTS += [draft2(r'^ffsm2::detail::C_<', 'deepExit', 1), draft2(r'^ffsm2::detail::C_<', 'deepUpdatePlans', 1), draft2(r'^ffsm2::detail::C_<', 'deepEntryGuard', 1), draft2(r'^ffsm2::detail::C_<', 'deepQuery', 2), draft2(r'^ffsm2::detail::C_<', 'deepPreUpdate', 1), draft2(r'^ffsm2::detail::C_<', 'deepChangeToRequested', 1), draft2(r'^ffsm2::detail::C_<', 'deepEnter', 1),
           draft2(r'^ffsm2::detail::S_<0,.*,A>$', 'deepPreUpdate', 1), draft2(r'^ffsm2::detail::S_<0,.*,A>$', 'deepEntryGuard', 1), draft2(r'^ffsm2::detail::S_<0,.*,A>$', 'deepPreReact', 2)]
