"""Helpers shared by the sidecar contract modules (plain Python: a unit is a dict, see tools/unit.py)."""

def bit(arr, k):
    """bit k of a byte array expression"""
    return '((%s[(%s) >> 3] >> ((%s) & 7)) & 1u)' % (arr, k, k)

def old(e):
    return '__CPROVER_old(%s)' % e

def fresh(p, what=None):
    return '__CPROVER_is_fresh(%s, sizeof(%s))' % (p, what or ('*' + p))

def implies(a, b):
    return '(!(%s) || (%s))' % (a, b)
