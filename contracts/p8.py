"""A payload type larger than its alignment (struct P8 { int a, b; }: size 8, alignment 4; witness -DW_P8).

C07 quantifies over every trivially copyable payload type; the int witness cannot tell `sizeof(Payload)` from
`alignof(Payload)`.  The payload-carrying units (transition / task constructors, payload(), emplace / append with payload,
changeWith of controls, machine and plan, and the type-based forms) are re-targeted at the P8 instantiation: same contracts
(the byte-wise clauses are stated for an arbitrary byte index below sizeof(payload)), `int` replaced by `struct P8` where
the contract names the payload type."""
import copy, re
from contracts.common import *
import contracts.machine as M
import contracts.control as CT
import contracts.c10 as C10
import contracts.wrappers as WR


def ptext(s):
    s = s.replace('(const int*)', '(const struct P8*)')
    return s


def pmap(x):
    if isinstance(x, str):
        return ptext(x)
    if isinstance(x, tuple):
        return tuple(pmap(y) for y in x)
    if isinstance(x, list):
        return [pmap(y) for y in x]
    if isinstance(x, dict):
        return {k: pmap(v) for k, v in x.items()}
    return x


def prec(p):
    return p.replace('<int>', '<P8>').replace('<int,', '<P8,').replace(',int>', ',P8>')


WANT = re.compile(r'(payload|Payload|changeWith)')
UNITS = []
for mod in (CT, C10, M, WR):
    for u in mod.UNITS:
        if u.get('witness') != M.W or not WANT.search(u['id']) or u['id'].startswith('plans.'):
            continue
        v = dict(u)
        v['id'] = u['id'] + '.p8'
        v['witness_defines'] = list(u.get('witness_defines', [])) + ['W_P8']
        v['recs'] = dict({k: prec(p) for k, p in u.get('recs', {}).items()}, P8=r'^P8$')
        t = dict(u['target'])
        if 'cls' in t:
            t['cls'] = prec(t['cls'])
        if t.get('sig'):
            t['sig'] = t['sig'].replace('int', 'P8')
        v['target'] = t
        v['contracts'] = pmap(copy.deepcopy({k: dict(c) for k, c in u.get('contracts', {}).items()}))
        v['ghost'] = pmap(list(u.get('ghost', [])))
        v['props'] = [p for p in u.get('props', []) if p in ('C07', 'C18')] or ['C07', 'C18']
        UNITS.append(v)
