"""Logging compiled out (no FFSM2_ENABLE_LOG_INTERFACE; witness -DW_NO_LOG): C16 quantifies over "logging disabled, enabled
and verbose", and every other property over "with any combination of the other features".  The units of machine.py /
control.py / plans.py are re-targeted at that build: same targets, same contracts with the logger treated as absent
(`logger != 0` is false, the freshness clauses about the logger object and the contracts of the logger interface go away;
the core has no logger member).  What remains are exactly the non-logging clauses: the same callbacks in the same order with
the same effects -- the non-interference half of C16 for the build without logging."""
import copy, re
from contracts.common import *
import contracts.machine as M
import contracts.control as CT
import contracts.plans as PL

_OP = r'(?:[A-Za-z0-9_.*&{}:]|->|\[[^\]]*\]|\((?:[^()]|\((?:[^()]|\([^()]*\))*\))*\))+'
_SUBS = [
    (re.compile(r'%s(?:\.|->)logger != \(void\*\)0' % _OP), '0'),
    (re.compile(r'%s(?:\.|->)logger == \(void\*\)0' % _OP), '1'),
]
_LEFT = re.compile(r'logger|LoggerInterfaceT')


def ntext(s):
    for rx, rep in _SUBS:
        s = rx.sub(rep, s)
    if re.match(r'^\(!\(0\) \|\| .*\)$', s, re.S):
        return '1'            # implies(logger attached, ...): vacuous in this build (and may name enums only the logging build has)
    return s


def nmap(x):
    if isinstance(x, str):
        return ntext(x)
    if isinstance(x, tuple):
        return tuple(nmap(y) for y in x)
    if isinstance(x, list):
        return [nmap(y) for y in x]
    if isinstance(x, dict):
        return {k: nmap(v) for k, v in x.items()}
    return x


def drop_logger_clauses(c):
    c = dict(c)
    for k in ('requires', 'requires_target'):
        if c.get(k):
            c[k] = [x for x in c[k] if 'logger' not in x]
    if c.get('ensures'):
        c['ensures'] = [e for e in c['ensures'] if 'logger' not in (e[1] if isinstance(e, tuple) else e)]
    if c.get('assigns'):
        c['assigns'] = [a for a in c['assigns'] if 'logger' not in a]
    return c


def leftovers(x):
    if isinstance(x, str):
        return bool(_LEFT.search(re.sub(r'/\*.*?\*/', '', x, flags=re.S)))
    if isinstance(x, (tuple, list)):
        return any(leftovers(y) for y in x)
    if isinstance(x, dict):
        return any(leftovers(v) for v in x.values())
    return False


UNITS = []
SKIPPED = []
for mod in (M, CT, PL):
    for u in mod.UNITS:
        if u.get('witness') != M.W or 'W_VERBOSE' in u.get('witness_defines', []) or re.search(r'attachLogger|S_empty|\.ctor', u['id']):
            continue
        v = dict(u)
        v['id'] = u['id'] + '.nolog'
        v['witness_defines'] = list(u.get('witness_defines', [])) + ['W_NO_LOG']
        v['recs'] = {k: p for k, p in u.get('recs', {}).items() if k != 'LoggerInterfaceT'}
        cs = {}
        for k, c in u.get('contracts', {}).items():
            if 'LoggerInterfaceT' in k:
                continue
            cs[k] = drop_logger_clauses(nmap(copy.deepcopy(dict(c))))
        v['contracts'] = cs
        v['calls'] = {k: m for k, m in u.get('calls', {}).items() if 'LoggerInterfaceT' not in k}
        if leftovers(cs):
            SKIPPED.append(u['id']); continue
        v['props'] = [p for p in u.get('props', [])]
        UNITS.append(v)
