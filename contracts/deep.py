"""Thorough tier: the bounded units of c10 / plans / c17 once more at a larger bound (task capacity 7 for the task list and plan
invariants, 5 for the whole plan walk and the constructors).  Same contracts, same code; only the constant CAPMAX of those modules
differs (the modules are executed a second time with CAPMAX_OVERRIDE set)."""
import importlib.util, sys


def load_variant(name, alias, **globs):
    spec = importlib.util.find_spec(name)
    m = importlib.util.module_from_spec(spec)
    m.__dict__.update(globs)
    sys.modules[alias] = m
    spec.loader.exec_module(m)
    return m


c10d = load_variant('contracts.c10', 'contracts.c10__deep', CAPMAX_OVERRIDE=7)
c17d = load_variant('contracts.c17', 'contracts.c17__deep', CAPMAX_OVERRIDE=5, C10_MODULE=c10d)
pld = load_variant('contracts.plans', 'contracts.plans__deep', CAPMAX_OVERRIDE=5, C10_MODULE=c10d, C17_MODULE=c17d)

UNITS = []
for mod in (c10d, c17d, pld):
    for u in mod.UNITS:
        if not u.get('bounded'):
            continue
        v = dict(u)
        v['id'] = u['id'] + '.deep'
        v['tier'] = 'thorough'
        v['bounded'] = u['bounded'].replace('(quick tier)', '(thorough tier)')
        v['timeout'] = max(u.get('timeout', 600), 3000)
        UNITS.append(v)
