"""C17: behaviour depends only on history (constructors initialise everything); copies are equivalent."""
from contracts.common import *
from contracts.machine import *
import importlib as _il
c10 = globals().get('C10_MODULE') or _il.import_module('contracts.c10')

CAPMAX = globals().get('CAPMAX_OVERRIDE', 4)
C17_RECS = dict(c10.PL_RECS); C17_RECS.update({'CoreT': r'^ffsm2::detail::CoreT<', 'TransitionT': r'^ffsm2::detail::TransitionT<int>$', 'TransitionBase': r'^ffsm2::detail::TransitionBase$',
                                              'Registry': r'^ffsm2::detail::Registry$', 'LoggerInterfaceT': r'^ffsm2::LoggerInterfaceT<', 'TaskStatus': r'^ffsm2::detail::TaskStatus$'})
C17_CONSTS = dict(c10.PL_CONSTS); C17_CONSTS['TaskListT__NCapacity'] = ('range', 1, CAPMAX); C17_CONSTS['TasksBits__NCapacity'] = ('range', 1, 8)
UNITS = []
DRAFTS = [dict(id='c17.draft.%d' % i, witness=W, recs=C17_RECS, opaque=[r'^Ctx$', r'LoggerInterfaceT<'], props=['DRAFT'], draft=True, consts=C17_CONSTS, ghost=[], bounded='capacity <= 4',
               array_max={'TaskListT._items': CAPMAX, 'TaskLinks._items': CAPMAX, 'Payloads._items': CAPMAX, 'TasksBits._storage': 1},
               target=dict(cls=r'^ffsm2::detail::CoreT<', kind='ctor', name='CoreT', nparams=n, sig=sig))
          for i, (n, sig) in enumerate([(2, r'Ctx &,'), (1, r'const ffsm2::detail::CoreT')])]

PD_ = 'self->planData'
def bits_zero(arr):
    return '%s.%s._storage[0] == 0' % (PD_, arr)
INIT_STATE = [
    ('C17,C01', 'self->registry.active == 255 && self->registry.requested == 255'),
    ('C17', t_default('self->request')), ('C17,C11', t_default('self->previousTransition')),
    ('C17,C10', 'pl_wf(&%s) && %s.tasks._count == 0' % (PD_, PD_)),
    ('C17,C08', '%s && %s' % (bits_zero('tasksSuccesses'), bits_zero('tasksFailures'))),
    ('C17', '%s.headStatus.result == TaskStatus_Result__NONE && %s.subStatus.result == TaskStatus_Result__NONE' % (PD_, PD_)),
    # no plan callback may fire on a machine to which no task was ever added: "a plan exists" starts out false
    ('C17,C09', '!%s.planExists' % PD_),
]
C17_UNWIND = {'TaskListT__ctor0.0': CAPMAX + 1, 'TaskLinks__ctor0.0': CAPMAX + 1, 'TasksBits__clear__0.0': 2, 'tl_on_free_list.0': c10.CAPMAX + 1, 'tl_wf.0': c10.CAPMAX + 1,
              'pl_wf.0': c10.CAPMAX + 1, 'pl_wf.1': c10.CAPMAX + 1, 'pl_nth.0': c10.CAPMAX + 1}
def c17_unit(id_, target, contracts, **kw):
    u = dict(id='c17.' + id_, witness=W, recs=C17_RECS, opaque=[r'^Ctx$', r'LoggerInterfaceT<'], props=['C17', 'C09', 'C18'], consts=C17_CONSTS, ghost=c10.PL_GHOST,
             array_max={'TaskListT._items': CAPMAX, 'TaskLinks._items': CAPMAX, 'Payloads._items': CAPMAX, 'TasksBits._storage': 1},
             need_consts=['TaskListT.CAPACITY'], target=target, contracts=contracts, unwindset=dict(C17_UNWIND), object_bits=12,
             bounded='task capacity <= %d, state count <= 8 (array-initialisation loops unwound)' % CAPMAX)
    u.update(kw)
    return u
UNITS += [
    # constructed over ANY prior memory contents (is_fresh memory is arbitrary): every field any later function reads is determined
    c17_unit('CoreT.ctor', dict(cls=r'^ffsm2::detail::CoreT<', kind='ctor', name='CoreT', nparams=2, sig=r'Ctx &,'),
             {'CoreT__ctor2': dict(requires=[fresh('self'), fresh('context_')], assigns=['*self'],
                                   ensures=[('C17,C06', 'self->context == context_ && self->logger == logger_')] + INIT_STATE)}),
]

# copy construction: every member of the core equals the source's (observers are functions of these members only)
def same_field(f):
    return 'self->%s == other->%s' % (f, f)
PD_FIELDS = ['planData.tasks._count', 'planData.tasks._vacantHead', 'planData.tasks._vacantTail', 'planData.tasks._last', 'planData.tasksBounds.first', 'planData.tasksBounds.last',
             'planData.planExists', 'planData.headStatus.result', 'planData.subStatus.result', 'planData.tasksSuccesses._storage[0]', 'planData.tasksFailures._storage[0]']
GQ = ['uint8_t g_s;   /* arbitrary task slot */']
UNITS += [
    c17_unit('CoreT.copy', dict(cls=r'^ffsm2::detail::CoreT<', kind='ctor', name='CoreT', nparams=1, sig=r'^void \(const ffsm2::detail::CoreT'),
             {'@target': dict(requires=[fresh('self'), fresh('other'), 'g_s < ' + c10.CAP], assigns=['*self'],
                              ensures=[('C17', same_field('context') + ' && ' + same_field('logger')),
                                       ('C17,C01', 'self->registry.active == other->registry.active && self->registry.requested == other->registry.requested'),
                                       ('C17', t_eq('self->request', '(*other)->request'.replace('(*other)->', 'other->'))),
                                       # the copy reports the same previous transition (F3: the hand-written constructor skipped it)
                                       ('C17,C11', t_eq('self->previousTransition', 'other->previousTransition')),
                                       ('C17', ' && '.join(same_field(f) for f in PD_FIELDS)),
                                       ('C17', ' && '.join(same_field('planData.tasks._items[g_s].' + f) for f in ('_b0.origin', '_b0.destination', 'payloadSet', 'storage[0]', 'storage[1]', 'storage[2]', 'storage[3]'))),
                                       ('C17', same_field('planData.taskLinks._items[g_s].prev') + ' && ' + same_field('planData.taskLinks._items[g_s].next'))])},
             ghost=c10.PL_GHOST + GQ, props=['C17', 'C11', 'C18']),
]

# copies of the machine object: R_ (defaulted, member-wise) and RV_<Automatic> (user-provided, does not re-enter)
CORE_COPY = dict(requires=[], assigns=['*self'],
                 ensures=['self->context == other->context && self->logger == other->logger && self->registry.active == other->registry.active && self->registry.requested == other->registry.requested',
                          t_eq('self->request', 'other->request'), t_eq('self->previousTransition', 'other->previousTransition'), 'self->planData.planExists == other->planData.planExists'])
M_RECS = dict(RECS); M_RECS.update({'RV_': r'^ffsm2::detail::RV_<', 'RP_': r'^ffsm2::detail::RP_<', 'InstanceT': r'^ffsm2::detail::InstanceT<'})
def copy_ens(dst, src):
    return [('C17,C01', '%s.registry.active == %s.registry.active && %s.registry.requested == %s.registry.requested' % (dst, src, dst, src)),
            ('C17', t_eq(dst + '.request', src + '.request')), ('C17,C11', t_eq(dst + '.previousTransition', src + '.previousTransition')),
            ('C17', '%s.context == %s.context && %s.logger == %s.logger && %s.planData.planExists == %s.planData.planExists' % (dst, src, dst, src, dst, src))]
UNITS += [
    dict(id='c17.R_.copy', witness=W, recs=M_RECS, opaque=OPAQUE + [r'^ffsm2::detail::C_<'], opaque_keep={'PlanDataT': ['planExists']}, props=['C17', 'C11', 'C18'], consts=CONSTS, ghost=GHOST,
         target=dict(cls=r'^ffsm2::detail::R_<', kind='ctor', name='R_', nparams=1, sig=r'^void \(const ffsm2::detail::R_'),
         calls={'re:^CoreT__cctor': 'contract'},
         # ({p0}: the parameter of the defaulted constructor is unnamed; a hand-written one names it)
         contracts={'@target': dict(requires=[fresh('self'), '{fresh:{p0}}'], assigns=['*self'],
                                    ensures=copy_ens('self->_core', '{p0}->_core')
                                    # the state objects (the apex holds the user's state classes with their data members) are copied too:
                                    # the composite is opaque here, one byte stands for its contents
                                    + [('C17', 'self->_apex._opaque == {p0}->_apex._opaque')]),
                    '@re:^CoreT__cctor': CORE_COPY}),
    dict(id='c17.RV_.copy', witness=W, recs=M_RECS, opaque=OPAQUE + [r'^ffsm2::detail::C_<'], opaque_keep={'PlanDataT': ['planExists']}, props=['C17', 'C01', 'C18'], consts=CONSTS, ghost=GHOST,
         need_consts=['ArgsT.STATE_COUNT', 'R_.SUBSTITUTION_LIMIT'],
         target=dict(cls=r'^ffsm2::detail::RV_<', kind='ctor', name='RV_', nparams=1, sig=r'^void \(const ffsm2::detail::RV_'),
         calls={'re:^R___cctor': 'contract', 'R___initialEnter': 'contract', 'R___finalExit': 'contract'},
         # copying runs no callback (the copy inherits "entered": no clock tick, protocol ghosts untouched)
         contracts={'@target': dict(requires=[fresh('self'), fresh('other')], assigns=['*self'], ensures=copy_ens('self->_b0._core', 'other->_b0._core') + [('C17', 'g_clock == __CPROVER_old(g_clock)')]),
                    '@re:^R___cctor': dict(requires=[], assigns=['*self'], ensures=[e[1].replace('self->_core', 'self->_core').replace('_unnamed0->', '{p0}->') for e in copy_ens('self->_core', '_unnamed0->_core')]),
                    # (not called by a copy constructor; present so that one that does is checked against their preconditions)
                    'R___initialEnter': dict(R_IE, optional=True), 'R___finalExit': dict(R_FE, optional=True)}),
]

# ---- value context (witness -DW_VALCTX): machines are move-constructible; a moved-to machine is what the source was
import copy as _copy
def _valctx(x):
    if isinstance(x, str):
        return x.replace('self->context == other->context', 'self->context._opaque == other->context._opaque').replace('self->context == context_', 'self->context._opaque == context_->_opaque') \
                .replace('.context == ', '.context._opaque == ').replace('->_core.context', '->_core.context._opaque') if False else \
               x.replace('self->context == other->context', 'self->context._opaque == other->context._opaque').replace('self->context == context_', 'self->context._opaque == context_->_opaque')
    if isinstance(x, tuple):
        return tuple(_valctx(y) for y in x)
    if isinstance(x, list):
        return [_valctx(y) for y in x]
    if isinstance(x, dict):
        return {k: _valctx(v) for k, v in x.items()}
    return x
def _variant(uid, new_id, sig, **kw):
    u = [x for x in UNITS if x['id'] == uid][0]
    v = dict(u)
    v['id'] = new_id
    v['witness_defines'] = ['W_VALCTX']
    v['target'] = dict(u['target'], sig=sig)
    v['contracts'] = _valctx(_copy.deepcopy({k: dict(c) for k, c in u['contracts'].items()}))
    v.update(kw)
    return v
UNITS += [
    _variant('c17.CoreT.copy', 'c17.CoreT.copy.valctx', r'^void \(const ffsm2::detail::CoreT'),
    _variant('c17.CoreT.copy', 'c17.CoreT.move', r'^void \(ffsm2::detail::CoreT<.*&&'),
    _variant('c17.CoreT.ctor', 'c17.CoreT.ctor.valctx', r'::Context &,'),
    _variant('c17.CoreT.ctor', 'c17.CoreT.ctor.rvalue', r'::PureContext &&,'),
]

def _valctx2(x):
    if isinstance(x, str):
        return x.replace('.context == ', '.context._opaque == ').replace('_core.context &&', '_core.context._opaque &&')
    if isinstance(x, tuple):
        return tuple(_valctx2(y) for y in x)
    if isinstance(x, list):
        return [_valctx2(y) for y in x]
    if isinstance(x, dict):
        return {k: _valctx2(v) for k, v in x.items()}
    return x
def _mvariant(uid, new_id, sig):
    u = [x for x in UNITS if x['id'] == uid][0]
    v = dict(u)
    v['id'] = new_id
    v['witness_defines'] = ['W_VALCTX']
    v['target'] = dict(u['target'], sig=sig)
    v['contracts'] = {k: _valctx2(_copy.deepcopy(dict(c))) for k, c in u['contracts'].items()}
    v['contracts'] = {(k.replace('cctor', '[cm]ctor') if k.startswith('@re:') else k): c for k, c in v['contracts'].items()}
    v['calls'] = {(k.replace('cctor', '[cm]ctor') if k.startswith('re:') else k): m for k, m in u.get('calls', {}).items()}
    return v
UNITS += [
    _mvariant('c17.R_.copy', 'c17.R_.copy.valctx', r'^void \(const ffsm2::detail::R_'),
    _mvariant('c17.R_.copy', 'c17.R_.move', r'^void \(ffsm2::detail::R_<.*&&'),
    _mvariant('c17.RV_.copy', 'c17.RV_.copy.valctx', r'^void \(const ffsm2::detail::RV_'),
    _mvariant('c17.RV_.copy', 'c17.RV_.move', r'^void \(ffsm2::detail::RV_<.*&&'),
]
