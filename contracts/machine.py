"""Shared vocabulary for the machine-level contracts: ghost state, control-object paths, the model of
"any user callback" (stub contracts closed under the control API), and generators for the per-layer
contracts S_ -> CS_ -> C_ -> R_.  See DESIGN.md section 3.

Ghost state (history variables; never read by lowered code, assigned only through stub contracts):
  g_clock            ticks once per delivery of a user callback and per logger record
  g_t[K][who]        clock value at which callback kind K was delivered to who (0 = root head, 1 = sub-state); 0 = not delivered
  g_st[K][who]       id of the state it was delivered to
  g_lt[K][who]       clock value of the logger's method record for that delivery (0 = none)
  g_entered, g_root_entered   enter/exit protocol state (C01)
  g_surv, g_has_surv, g_rounds   substitution loop: most recent pending transition the guards did not cancel
  g_pending          the request under guard evaluation (what guards must see as pendingTransition())
  g_event            the caller's event object (identity)
"""
from contracts.common import *

W = 'w_machine'
K = dict(ENTRY_GUARD=1, ENTER=2, REENTER=3, PRE_UPDATE=4, UPDATE=5, POST_UPDATE=6, PRE_REACT=7, REACT=8, QUERY=9, POST_REACT=10,
         EXIT_GUARD=11, EXIT=12, PLAN_SUCCEEDED=13, PLAN_FAILED=14)
BIG = '1000000u'
BOUND = {'R': '1000u', 'C': '100000u', 'CS': '200000u', 'S': '1000000u', 'stub': '2000000u'}

GHOST = [
    'uint32_t g_clock;',
    'uint32_t g_t[16][2]; uint8_t g_st[16][2]; uint32_t g_lt[16][2];',
    'uint8_t g_entered; _Bool g_root_entered;',
    'struct TransitionT g_surv; _Bool g_has_surv; uint32_t g_rounds;',
    'struct TransitionT g_lastreq;   /* the outstanding request exactly as its requester issued it */',
    'struct TransitionT g_lasteval;  /* the request most recently put before the guards */',
    'struct Ev *g_event;',
    '#define WHO(st) ((st) != 255)',
]

N = 'ArgsT__STATE_COUNT'
RECS = {
    'R_': r'^ffsm2::detail::R_<', 'CoreT': r'^ffsm2::detail::CoreT<', 'TransitionT': r'^ffsm2::detail::TransitionT<int>$',
    'TransitionBase': r'^ffsm2::detail::TransitionBase$', 'Registry': r'^ffsm2::detail::Registry$', 'C_': r'^ffsm2::detail::C_<',
    'PlanControlT': r'^ffsm2::detail::PlanControlT<', 'ControlT': r'^ffsm2::detail::ControlT<', 'ConstControlT': r'^ffsm2::detail::ConstControlT<',
    'GuardControlT': r'^ffsm2::detail::GuardControlT<', 'FullControlT': r'^ffsm2::detail::FullControlT<', 'FullControlBaseT': r'^ffsm2::detail::FullControlBaseT<',
    'PlanDataT': r'^ffsm2::detail::PlanDataT<', 'ArgsT': r'^ffsm2::detail::ArgsT<', 'TL_': r'^ffsm2::detail::TL_<A,B,C',
    'LoggerInterfaceT': r'^ffsm2::LoggerInterfaceT<',
}
OPAQUE = [r'^ffsm2::detail::PlanDataT<', r'^Ctx$', r'LoggerInterfaceT<']
CONSTS = {'G__NSubstitutionLimit': ('range', 1, 255), 'TL___sizeof_Ts': ('range', 1, 255)}

# ---- paths from a control parameter to its sub-objects, by control flavour
CTL = {   # path to the ControlT sub-object / PlanControlT sub-object
    'Guard': dict(ctl='control->_b0._b0._b0._b0', plan='control->_b0._b0._b0', t='struct GuardControlT'),
    'Full': dict(ctl='control->_b0._b0._b0', plan='control->_b0._b0', t='struct FullControlT'),
    'Plan': dict(ctl='control->_b0', plan='(*control)', t='struct PlanControlT'),
    'Const': dict(ctl='(*control)', plan=None, t='struct ConstControlT'),
}
def core(flav):
    return '%s._core' % CTL[flav]['ctl']

# callback table: name -> (Method id, control flavour, has event, pre/post side)
CB = {
    'entryGuard': ('ENTRY_GUARD', 'Guard', False), 'enter': ('ENTER', 'Plan', False), 'reenter': ('REENTER', 'Plan', False),
    'preUpdate': ('PRE_UPDATE', 'Full', False), 'update': ('UPDATE', 'Full', False), 'postUpdate': ('POST_UPDATE', 'Full', False),
    'preReact': ('PRE_REACT', 'Full', True), 'react': ('REACT', 'Full', True), 'postReact': ('POST_REACT', 'Full', True),
    'query': ('QUERY', 'Const', True), 'exitGuard': ('EXIT_GUARD', 'Guard', False), 'exit': ('EXIT', 'Plan', False),
    'planSucceeded': ('PLAN_SUCCEEDED', 'Full', False), 'planFailed': ('PLAN_FAILED', 'Full', False),
}
DEEP = {'entryGuard': 'deepEntryGuard', 'enter': 'deepEnter', 'reenter': 'deepReenter', 'preUpdate': 'deepPreUpdate', 'update': 'deepUpdate',
        'postUpdate': 'deepPostUpdate', 'preReact': 'deepPreReact', 'react': 'deepReact', 'postReact': 'deepPostReact', 'query': 'deepQuery',
        'exitGuard': 'deepExitGuard', 'exit': 'deepExit', 'planSucceeded': 'wrapPlanSucceeded', 'planFailed': 'wrapPlanFailed'}

def t_eq(a, b):
    return ('(%s._b0.origin == %s._b0.origin && %s._b0.destination == %s._b0.destination && %s._b0.method == %s._b0.method && '
            '%s.payloadSet == %s.payloadSet && %s.storage[0] == %s.storage[0] && %s.storage[1] == %s.storage[1] && %s.storage[2] == %s.storage[2] && %s.storage[3] == %s.storage[3])'
            % ((a, b) * 8))
def t_default(a):
    return '(%s._b0.destination == 255 && %s._b0.origin == 255 && %s._b0.method == Method__NONE && !%s.payloadSet)' % (a, a, a, a)
def req_ok(a):
    return '(%s._b0.destination == 255 || %s._b0.destination < %s)' % (a, a, N)
def req_rel(new, old_, st):
    """closure of the request-making control API: unchanged, or a new request whose origin is the calling state;
    g_lastreq mirrors the request as issued (C07: payloads travel with the request they were attached to)"""
    return ('((%s && %s) || (%s._b0.origin == %s && %s._b0.destination < %s && %s._b0.method == Method__NONE && %s))'
            % (t_eq(new, old_), t_eq('g_lastreq', '__CPROVER_old(g_lastreq)'), new, st, new, N, new, t_eq('g_lastreq', new)))

def protocol_pre(cb, st, active):
    """C01: when may this lifecycle callback be delivered to state st"""
    if cb == 'enter':
        return '(%s == 255 ? (!g_root_entered && g_entered == 255) : (g_root_entered && g_entered == 255 && %s == %s))' % (st, active, st)
    if cb == 'exit':
        return '(%s == 255 ? (g_root_entered && g_entered == 255) : (g_root_entered && g_entered == %s && %s == %s))' % (st, st, active, st)
    if cb == 'reenter':
        return '(%s != 255 && g_root_entered && g_entered == %s && %s == %s)' % (st, st, active, st)
    return '1'
def protocol_post(cb, st):
    if cb == 'enter':
        return '(%s == 255 ? (g_root_entered && g_entered == 255) : (g_root_entered == __CPROVER_old(g_root_entered) && g_entered == %s))' % (st, st)
    if cb == 'exit':
        return '(%s == 255 ? (!g_root_entered && g_entered == 255) : (g_root_entered == __CPROVER_old(g_root_entered) && g_entered == 255))' % st
    return '(g_root_entered == __CPROVER_old(g_root_entered) && g_entered == __CPROVER_old(g_entered))'

def deliver(cb, st, flav, role, exact, layer='S'):
    """Clauses shared by the user-callback stub (role='stub') and by every layer's deep/wide function for callback cb
    delivered to state st.  exact=True: exactly one tick (the stub itself); False: at least one (wrappers with injections / logging)."""
    kid = K[CB[cb][0]]
    c = core(flav)
    who = 'WHO(%s)' % st
    req, ens, asg = [], [], []
    active = '%s->registry.active' % c
    guard = cb in ('entryGuard', 'exitGuard')
    life = cb in ('enter', 'exit', 'reenter')
    plan_cb = cb in ('planSucceeded', 'planFailed')
    req.append('g_clock < ' + BOUND['stub' if role == 'stub' else layer])
    if not guard:
        req.append('g_t[%d][%s] == 0' % (kid, who))
    # C05 / C01: only the root head and the active state are addressed
    if cb == 'entryGuard':
        req.append('(%s == 255 || %s->registry.requested == %s)' % (st, c, st))
    elif life:
        req.append(protocol_pre(cb, st, active))
    elif plan_cb:
        req.append('%s == 255' % st)
    else:
        req.append('(%s == 255 || %s == %s)' % (st, active, st))
    if CB[cb][2]:
        req.append('{ptr:event} == g_event')                                   # C05: the caller's own event object
    if guard:
        # C06 / C07: guards see the request under evaluation (the outstanding request exactly as issued, staged in the
        # registry) and the transition accepted so far in this processing step
        # (the pending transition object is in no frame below R_, so what the first guard of a round is shown is what
        #  every guard of the round is shown; that it equals the request as issued is R_::cancelledByGuards' precondition)
        req.append('(control->_pendingTransition->_b0.destination == %s->registry.requested || (control->_pendingTransition->_b0.destination == 255 && %s->registry.active == 255))' % (c, c))
        req.append(implies('g_has_surv', t_eq('(*%s._currentTransition)' % CTL[flav]['plan'], 'g_surv')))
        req.append(implies('!g_has_surv', t_default('(*%s._currentTransition)' % CTL[flav]['plan'])))
    if cb in ('enter', 'reenter') :
        req.append(implies('%s != 255 && g_has_surv' % st, t_eq('(*%s._currentTransition)' % CTL[flav]['plan'], 'g_surv')))   # C07 / C11
    # frame
    asg += ['g_clock', 'g_t[%d][%s]' % (kid, who), 'g_st[%d][%s]' % (kid, who)]
    if flav != 'Const':
        asg.append('%s->planData' % c)
    if flav in ('Full', 'Guard'):
        asg += ['%s->request' % c, 'g_lastreq', '%s._taskStatus' % CTL[flav]['plan']]
    if flav == 'Guard':
        asg.append('control->_cancelled')
    if life:
        asg += ['g_entered', 'g_root_entered']
    # effect
    if exact:
        ens.append('g_clock == __CPROVER_old(g_clock) + 1 && g_t[%d][%s] == g_clock' % (kid, who))
    else:
        ens.append('g_clock > __CPROVER_old(g_clock) && g_clock <= __CPROVER_old(g_clock) + 16 && g_t[%d][%s] > __CPROVER_old(g_clock) && g_t[%d][%s] <= g_clock' % (kid, who, kid, who))
    ens.append('g_st[%d][%s] == %s' % (kid, who, st))
    if flav in ('Full', 'Guard'):
        ens.append(req_rel('%s->request' % c, '__CPROVER_old(%s->request)' % c, st))
        ens.append(req_ok('%s->request' % c) if False else '1')
    if flav == 'Guard':
        ens.append('(control->_cancelled == __CPROVER_old(control->_cancelled) || control->_cancelled)')
    if life:
        ens.append(protocol_post(cb, st))
    return req, asg, ens

def stub_contract(cb, st):
    """contract of the user's callback cb of the state whose id is st: the model of arbitrary user code"""
    mid, flav, ev = CB[cb]
    req, asg, ens = deliver(cb, st, flav, 'stub', True)
    req = ['%s._originId == %s' % (CTL[flav]['ctl'], st)] + req      # C06: the control reports the state's own id
    return dict(requires=req, assigns=asg, ensures=ens)

# =============================================================================================
# logger stubs (C16): one record = one clock tick, remembered per (method, who)
def logger_contracts():
    return {
        # parameters are unnamed in the library (FFSM2_UNUSED): _unnamed0 = context, _unnamed1 = origin, _unnamed2 = method
        'LoggerInterfaceT__recordMethod': dict(
            requires=['g_clock < ' + BIG + ' * 2', '_unnamed2 < 16', '(_unnamed2 == 1 || _unnamed2 == 11 || g_lt[_unnamed2][WHO(_unnamed1)] == 0)'],
            assigns=['g_clock', 'g_lt[_unnamed2][WHO(_unnamed1)]'],
            ensures=['g_clock == __CPROVER_old(g_clock) + 1', 'g_lt[_unnamed2][WHO(_unnamed1)] == g_clock']),
    }

# =============================================================================================
# S_ layer: every deep*/wrap* of a state with a real head, STATE_ID symbolic (0..254 sub-state, 255 root head)
ST = 'S___STATE_ID'
def s_contract(cb, st, for_layer='S_'):
    """contract of S_::deepX (also used, with st = prong / 255, for the callers' view of it)"""
    mid, flav, ev = CB[cb]
    kid = K[mid]
    req, asg, ens = deliver(cb, st, flav, 'wrapper', False)
    c = core(flav)
    who = 'WHO(%s)' % st
    req = list(req) + ([] if cb in ('entryGuard', 'exitGuard') else ['g_lt[%d][%s] == 0' % (kid, who)])
    asg = list(asg) + ['g_lt[%d][%s]' % (kid, who), '%s._originId' % CTL[flav]['ctl']]
    ens = list(ens)
    # C06: scoped origin restored afterwards
    ens.append('%s._originId == __CPROVER_old(%s._originId)' % (CTL[flav]['ctl'], CTL[flav]['ctl']))
    # C16: with a logger attached exactly one method record, emitted before the user code of this delivery; none without
    ens.append(implies('%s->logger != (void*)0' % c, 'g_lt[%d][%s] == __CPROVER_old(g_clock) + 1 && g_lt[%d][%s] < g_t[%d][%s]' % (kid, who, kid, who, kid, who)))
    ens.append(implies('%s->logger == (void*)0' % c, 'g_lt[%d][%s] == __CPROVER_old(g_lt[%d][%s])' % (kid, who, kid, who)))
    if cb in ('entryGuard', 'exitGuard'):
        ens.append(('C02,C03', '__CPROVER_return_value == (!__CPROVER_old(control->_cancelled) && control->_cancelled)'))     # C03: "newly cancelled"
    elif flav == 'Full' and cb not in ('planSucceeded', 'planFailed'):
        ens.append('__CPROVER_return_value.result == %s._taskStatus.result' % CTL[flav]['plan'])
    if cb == 'exit':
        pass
    rt = [fresh('self'), fresh('control'), fresh(c, '*' + c),
          '(%s->logger == (void*)0 || __CPROVER_is_fresh(%s->logger, sizeof(*%s->logger)))' % (c, c, c),
          '%s->context == (void*)0 || __CPROVER_is_fresh(%s->context, sizeof(*%s->context))' % (c, c, c)]
    if flav in ('Guard', 'Full', 'Plan'):
        pl = CTL[flav]['plan']
        rt.append(fresh('%s._currentTransition' % pl, '*%s._currentTransition' % pl))
    if flav == 'Guard':
        rt.append(fresh('control->_pendingTransition', '*control->_pendingTransition'))
    if ev:
        rt.append('{fresh:event}')
    return dict(requires=req, requires_target=rt, assigns=asg, ensures=ens)

S_RECS = dict(RECS); S_RECS.update({'S_': r'^ffsm2::detail::S_<0,.*,A>$', 'A_': r'^ffsm2::detail::A_<ffsm2::detail::B_<', 'B_': r'^ffsm2::detail::B_<'})
S_CONSTS = dict(CONSTS); S_CONSTS['S___NStateId'] = ('range', 0, 255)
# structural fact: the id of a sub-state is below the state count (carried by the CS_ split contracts, C14); 255 is the root head
S_CONSTS['__assume__'] = ['S___STATE_ID == 255 || S___STATE_ID < ArgsT__STATE_COUNT']
S_CALLS = {'re:^LoggerInterfaceT__': 'contract', 'PlanDataT__clearTaskStatus': 'contract'}
# (history variable: which state's reports were dropped -- set by the callee contract, read only by the S_ units' own postcondition)
GHOST += ['_Bool g_cleared; uint8_t g_cleared_st;   /* clearTaskStatus(g_cleared_st) was called */']
CLEAR_STATUS = {'PlanDataT__clearTaskStatus': dict(requires=['stateId == 255 || stateId < ' + N], assigns=['*self'], ensures=[],
                                                   assigns_callee=['g_cleared', 'g_cleared_st'], ensures_callee=['g_cleared && g_cleared_st == stateId'])}
def exit_clears(c):
    """C08: S_::deepExit drops the task reports of exactly the state it exits (only in the unit that verifies deepExit itself)"""
    c = dict(c)
    c['requires'] = list(c['requires']) + ['!g_cleared']
    c['assigns'] = list(c['assigns']) + ['g_cleared', 'g_cleared_st']
    c['ensures'] = list(c['ensures']) + [('C08', 'g_cleared && g_cleared_st == ' + ST)]
    return c

def s_unit(cb, head='A', tag=None, props=None):
    mid, flav, ev = CB[cb]
    fn = DEEP[cb]
    tname = 'S___%s' % fn + ('__Ev' if ev else '')
    contracts = {tname: exit_clears(s_contract(cb, ST)) if cb == 'exit' else s_contract(cb, ST)}
    contracts['%s__%s' % (head, cb)] = dict(stub_contract(cb, ST), optional=True)     # optional: if it is never called the target's own postcondition fails
    # the state's other callbacks are user code too: modelled (optional: normally not called from this function), so that a
    # deep* function calling the wrong callback fails its own postcondition instead of leaving the unit without a contract
    for cb2 in CB:
        if cb2 != cb and (head == 'R' or cb2 not in ('planSucceeded', 'planFailed')):
            contracts['%s__%s' % (head, cb2)] = dict(stub_contract(cb2, ST), optional=True)
    contracts.update(logger_contracts())
    if cb == 'exit':
        contracts.update(CLEAR_STATUS)
    recs = dict(S_RECS)
    if head != 'A':
        recs['S_'] = r'^ffsm2::detail::S_<255,.*,%s>$' % head
    u = dict(id='structure.S_.%s%s' % (fn, '' if head == 'A' else '.' + head), witness=W, recs=recs, opaque=OPAQUE,
             props=props or ['C01', 'C05', 'C06', 'C16', 'C18'] + (['C03'] if 'Guard' in fn else []),
             target=dict(cls=recs['S_'], name=fn, nparams=2 if ev else 1),
             consts=S_CONSTS, need_consts=['ArgsT.STATE_COUNT'], ghost=GHOST, calls=S_CALLS, contracts=contracts)
    return u

UNITS = [s_unit(cb) for cb in ('entryGuard', 'enter', 'reenter', 'preUpdate', 'update', 'postUpdate', 'preReact', 'react', 'postReact', 'query', 'exitGuard', 'exit')]
# the root head with a user type (S_<INVALID, Args, R>): the two functions only a head has -- what plans.updatePlan.* assume of them
UNITS += [s_unit(cb, head='R', props=['C09', 'C16', 'C06', 'C18']) for cb in ('planSucceeded', 'planFailed')]

# =============================================================================================
# C15: a state with three injections (Head = C : StateT<Inj1, Inj2, Inj3>): LIFO nesting
PRE_SIDE = ('entryGuard', 'enter', 'reenter', 'preUpdate', 'update', 'preReact', 'react')
POST_SIDE = ('exit', 'postUpdate', 'postReact')
def inj_stub(cb, d, st):
    c = stub_contract(cb, st)
    kid = K[CB[cb][0]]
    who = 'WHO(%s)' % st
    rep = lambda x: x.replace('g_t[%d][%s]' % (kid, who), 'g_ti[%d][%d]' % (kid, d)).replace('g_st[%d][%s]' % (kid, who), 'g_sti[%d][%d]' % (kid, d))
    out = dict(requires=[rep(x) for x in c['requires'] if 'g_entered' not in x and 'g_root_entered' not in x],
               assigns=[rep(x) for x in c['assigns'] if x not in ('g_entered', 'g_root_entered')],
               ensures=[rep(x) for x in c['ensures'] if 'g_entered' not in x])
    if cb in ('entryGuard', 'exitGuard'):
        out['requires'].append('g_ti[%d][%d] == 0' % (kid, d))
    return out

def s_unit_inj(cb):
    mid, flav, ev = CB[cb]
    kid = K[mid]
    fn = DEEP[cb]
    tname = 'S___%s' % fn + ('__Ev' if ev else '')
    sc = s_contract(cb, ST)
    who = 'WHO(%s)' % ST
    tis = ['g_ti[%d][%d]' % (kid, d) for d in range(3)]
    sc['requires'] = sc['requires'] + ['%s == 0' % t for t in tis]
    sc['assigns'] = sc['assigns'] + tis + ['g_sti[%d][%d]' % (kid, d) for d in range(3)]
    own = 'g_t[%d][%s]' % (kid, who)
    if cb in PRE_SIDE:
        order = '__CPROVER_old(g_clock) < %s && %s < %s && %s < %s && %s < %s' % (tis[0], tis[0], tis[1], tis[1], tis[2], tis[2], own)
    elif cb in POST_SIDE:
        order = '__CPROVER_old(g_clock) < %s && %s < %s && %s < %s && %s < %s' % (own, own, tis[2], tis[2], tis[1], tis[1], tis[0])
    else:
        order = ' && '.join('%s > __CPROVER_old(g_clock)' % t for t in tis)     # exitGuard / query: each injection exactly once, order not constrained by C15
    sc['ensures'] = sc['ensures'] + [('C15', order), ('C15', ' && '.join('g_sti[%d][%d] == %s' % (kid, d, ST) for d in range(3)))]
    if cb == 'exit':
        sc = exit_clears(sc)
    contracts = {tname: sc, 'C__%s' % cb: dict(stub_contract(cb, ST), optional=True)}
    for d in range(3):
        contracts['Inj%d__%s' % (d + 1, cb)] = dict(inj_stub(cb, d, ST), optional=True)
    for cb2 in CB:
        if cb2 != cb and cb2 not in ('planSucceeded', 'planFailed'):
            contracts['C__%s' % cb2] = dict(stub_contract(cb2, ST), optional=True)
            for d in range(3):
                contracts['Inj%d__%s' % (d + 1, cb2)] = dict(inj_stub(cb2, d, ST), optional=True)
    contracts.update(logger_contracts())
    if cb == 'exit':
        contracts.update(CLEAR_STATUS)
    recs = dict(S_RECS)
    recs['S_'] = r'^ffsm2::detail::S_<2,.*,C>$'
    recs['A_'] = r'^ffsm2::detail::A_<Inj1,Inj2,Inj3>$'
    return dict(id='structure.S_inj.%s' % fn, witness=W, recs=recs, opaque=OPAQUE, props=['C15', 'C16', 'C18'] + (['C02', 'C03'] if 'Guard' in fn else []) + (['C01', 'C02'] if cb in ('enter', 'reenter', 'exit') else []),
                target=dict(cls=recs['S_'], name=fn, nparams=2 if ev else 1),
                consts=S_CONSTS, need_consts=['ArgsT.STATE_COUNT'], ghost=GHOST + ['uint32_t g_ti[16][3]; uint8_t g_sti[16][3];'],
                calls=S_CALLS, contracts=contracts,
                # not a bounded stand-in (every loop and input is unbounded): the instantiation is fixed, like the payload type
                instantiation='number of injections k = 3 (witness type C : StateT<Inj1, Inj2, Inj3>; the variadic A_<First, Rest...> recursion and its base case '
                              'A_<First> are both part of it); k = 0 is covered by the structure.S_ units')

UNITS += [s_unit_inj(cb) for cb in ('entryGuard', 'enter', 'reenter', 'preUpdate', 'update', 'postUpdate', 'preReact', 'react', 'postReact', 'query', 'exitGuard', 'exit')]

# =============================================================================================
# CS_ layer (C14): binary dispatch on the prong.  The inner node CS_<NN, Args, NP, TL_<T1..Tn>> (n >= 2) is verified with
# symbolic NN == NP == lo and n, its two halves replaced by the *same* contract instantiated at (lo, n/2) and
# (lo + n/2, n - n/2); the leaf (n == 1) is verified against the S_ contract.  Induction over n then gives the
# contract for every state count.  That the halves really are those instantiations is a fact about template
# instantiation (LHalfCS / RHalfCS); it is checked on every CS_ node of the witnesses (skeleton check below).
WIDE = {cb: 'wide' + DEEP[cb][4:] for cb in DEEP if DEEP[cb].startswith('deep')}
LO = 'CS___NProng'
NSUB = 'CS___sizeof_TStates'

def cs_contract(cb, lo, n):
    c = s_contract(cb, '{p-1}')
    kid = K[CB[cb][0]]
    rng = '(int)(%s) <= (int){p-1} && (int){p-1} < (int)(%s) + (int)(%s) && (int)(%s) + (int)(%s) <= (int)%s' % (lo, lo, n, lo, n, N)
    out = dict(c)
    out['requires'] = [rng] + [x.replace("g_clock < " + BOUND['S'], "g_clock < " + BOUND['CS']) for x in c['requires']]
    if cb in ('entryGuard', 'exitGuard'):
        # C03 short-circuit: a guard is consulted only while the request has not been cancelled in this round
        out['requires'] = out['requires'] + ['!control->_cancelled']
    out['requires_target'] = [x for x in c['requires_target']]
    return out

def skeleton_check(ast):
    """every inner CS_ node of the witness splits as the contracts assume; every leaf holds the S_ (or C_) with its own id"""
    import re
    from cxxast import split_targs
    notes, n_inner, n_leaf = [], 0, 0
    def parse(q):
        m = re.match(r'^ffsm2::detail::CS_<(\d+),(.*),(\d+),ffsm2::detail::TL_<(.*)>>$', q)
        return (int(m.group(1)), int(m.group(3)), split_targs(m.group(4))) if m else None
    for q, r in ast.rec_by_qname.items():
        p = parse(q)
        if not p:
            continue
        nn, np_, ts = p
        if len(ts) >= 2:
            n_inner += 1
            l, rr = parse(r.bases[0]), parse(r.bases[1])
            h = len(ts) // 2
            ok = l and rr and l[0] == nn and l[1] == np_ and l[2] == ts[:h] and rr[0] == nn + h and rr[1] == np_ + h and rr[2] == ts[h:]
            if not ok:
                raise Exception('CS_ skeleton broken at %s: bases %s' % (q, r.bases))
        else:
            n_leaf += 1
            b = r.bases[0]
            if not re.match(r'^ffsm2::detail::S_<%d,' % nn, b) or not b.endswith(',%s>' % ts[0]):
                raise Exception('CS_ leaf %s does not hold S_<%d, ..., %s>: %s' % (q, nn, ts[0], b))
            if nn != np_:
                raise Exception('CS_ leaf %s: state id differs from prong' % q)
    if n_inner == 0 or n_leaf == 0:
        raise Exception('no CS_ nodes in the witness')
    # the composite hands the whole list to CS_<0, Args, 0, ...>
    for q, r in ast.rec_by_qname.items():
        if q.startswith('ffsm2::detail::C_<'):
            if not re.match(r'^ffsm2::detail::S_<255,', r.bases[0]) or not re.match(r'^ffsm2::detail::CS_<0,.*,0,ffsm2::detail::TL_<', r.bases[1]):
                raise Exception('C_ bases are not S_<INVALID,..> and CS_<0,..,0,..>: %s' % r.bases)
    return ['skeleton: %d inner and %d leaf CS_ nodes of the witness split as LHalf=(NN,NP,n/2) RHalf=(NN+n/2,NP+n/2,n-n/2); leaves hold S_<NN>' % (n_inner, n_leaf)]

CS_RECS = dict(RECS); CS_RECS.update({'CS_': r'^ffsm2::detail::CS_<0,.*,0,ffsm2::detail::TL_<A,B,C>>$', 'CS_L': r'^ffsm2::detail::CS_<0,.*,0,ffsm2::detail::TL_<A>>$',
                                      'CS_R': r'^ffsm2::detail::CS_<1,.*,1,ffsm2::detail::TL_<B,C>>$'})
CS_CONSTS = dict(CONSTS); CS_CONSTS.update({'CS___NProng': ('range', 0, 254), 'CS___sizeof_TStates': ('range', 2, 255), 'CS___NStateId': ('expr', 'CS___NProng')})

def cs_inner_unit(cb):
    mid, flav, ev = CB[cb]
    fn = WIDE[cb]
    sfx = '__Ev' if ev else ''
    half = '(%s / 2)' % NSUB
    contracts = {'CS___%s%s' % (fn, sfx): cs_contract(cb, LO, NSUB),
                 'CS_L__%s%s' % (fn, sfx): cs_contract(cb, LO, half),
                 'CS_R__%s%s' % (fn, sfx): cs_contract(cb, '(%s + %s)' % (LO, half), '(%s - %s)' % (NSUB, half))}
    return dict(id='structure.CS_.%s' % fn, witness=W, recs=CS_RECS, opaque=OPAQUE + [r'^ffsm2::detail::S_<', r'^ffsm2::detail::CS_<\d+,.*TL_<[A-Z]>>$'],
                props=['C14', 'C05', 'C01', 'C18'], target=dict(cls=CS_RECS['CS_'], name=fn, nparams=3 if ev else 2),
                consts=CS_CONSTS, need_consts=['ArgsT.STATE_COUNT', 'CS_.PRONG_INDEX', 'CS_.R_PRONG'], ghost=GHOST, ast_check=skeleton_check,
                calls={'re:^CS_[LR]__': 'contract'}, contracts=contracts)

LEAF_RECS = dict(RECS); LEAF_RECS.update({'CS_': r'^ffsm2::detail::CS_<0,.*,0,ffsm2::detail::TL_<A>>$', 'S_': r'^ffsm2::detail::S_<0,.*,A>$'})
LEAF_CONSTS = dict(CONSTS); LEAF_CONSTS.update({'CS___NProng': ('range', 0, 254)})
def cs_leaf_unit(cb):
    mid, flav, ev = CB[cb]
    fn = WIDE[cb]
    sfx = '__Ev' if ev else ''
    prong_param = 'prong'
    c = cs_contract(cb, LO, '1')
    contracts = {'CS___%s%s' % (fn, sfx): c, 'S___%s%s' % (DEEP[cb], sfx): s_contract(cb, LO)}
    return dict(id='structure.CS_leaf.%s' % fn, witness=W, recs=LEAF_RECS, opaque=OPAQUE + [r'^ffsm2::detail::S_<'],
                props=['C14', 'C05', 'C01', 'C18'], target=dict(cls=LEAF_RECS['CS_'], name=fn, nparams=3 if ev else 2),
                consts=LEAF_CONSTS, need_consts=['ArgsT.STATE_COUNT', 'CS_.PRONG_INDEX'], ghost=GHOST, ast_check=skeleton_check,
                calls={'re:^S___': 'contract'}, contracts=contracts)

_CS_CBS = ('entryGuard', 'enter', 'reenter', 'preUpdate', 'update', 'postUpdate', 'preReact', 'react', 'postReact', 'query', 'exitGuard', 'exit')
UNITS += [cs_inner_unit(cb) for cb in _CS_CBS] + [cs_leaf_unit(cb) for cb in _CS_CBS]

# =============================================================================================
# C_ layer: the composite (root region).  Callees: the head S_<INVALID> (who = 0, state 255) and CS_<0, Args, 0, all states>
# (who = 1, state = prong), both replaced by their contracts.
def subst_st(c, who, st, st_post=None):
    """instantiate an S_-level contract (written for state 'ST?') at a fixed who and state expression"""
    def f(x, post):
        e = st_post if (post and st_post) else st
        return x.replace('WHO(ST?)', str(who)).replace('ST?', e)
    out = dict(c)
    out['requires'] = [f(x, False) for x in c['requires']]
    out['assigns'] = [f(x, False) for x in c['assigns']]
    out['ensures'] = [(e[0], f(e[1], True)) if isinstance(e, tuple) else f(e, True) for e in c['ensures']]
    out['requires_target'] = []
    return out

def head_contract(cb):
    c = subst_st(s_contract(cb, 'ST?'), 0, '255')
    c['requires'] = [x.replace('g_clock < ' + BOUND['S'], 'g_clock < ' + BOUND['CS']) for x in c['requires']]
    if cb in ('entryGuard', 'exitGuard'):
        c['requires'] = c['requires'] + ['!control->_cancelled']
    return c

def sub_contract(cb, n_expr=None):
    """CS_<0, Args, 0, all>::wideX as seen from C_: prong in [0, N)"""
    return cs_contract(cb, '0', N)

C_RECS = dict(RECS); C_RECS.update({'S_head': r'^ffsm2::detail::S_<255,', 'CS_': r'^ffsm2::detail::CS_<0,.*,0,ffsm2::detail::TL_<A,B,C>>$',
                                    'PlanT': r'^ffsm2::detail::PlanT<', 'PayloadPlanT': r'^ffsm2::detail::PayloadPlanT<', 'Bounds': r'^ffsm2::detail::Bounds$'})
C_OPAQUE = OPAQUE + [r'^ffsm2::detail::S_<', r'^ffsm2::detail::CS_<']
C_KEEP = {'PlanDataT': ['headStatus', 'subStatus', 'planExists', 'tasksBounds']}
C_CALLS = {'re:^S_head__': 'contract', 're:^CS___': 'contract', 'PlanT__clear': 'contract'}
PLAN_CLEAR = {'PlanT__clear': dict(requires=[], assigns=['*self->_planData'], ensures=['self->_planData->planExists == __CPROVER_old(self->_planData->planExists)'])}

def tk(kid, who):
    return 'g_t[%d][%d]' % (kid, who)
def ticked(kid, who):
    return '(%s > __CPROVER_old(g_clock) && %s <= g_clock)' % (tk(kid, who), tk(kid, who))
def zero(kids, whos=(0, 1)):
    return ['%s == 0 && g_lt[%d][%d] == 0' % (tk(k, w), k, w) for k in kids for w in whos]
def marks(kids, whos=(0, 1)):
    return [x for k in kids for w in whos for x in (tk(k, w), 'g_st[%d][%d]' % (k, w), 'g_lt[%d][%d]' % (k, w))]

def c_target_req(flav, ev=False):
    c = core(flav)
    rt = [fresh('self'), fresh('control'), fresh(c, '*' + c),
          '(%s->logger == (void*)0 || __CPROVER_is_fresh(%s->logger, sizeof(*%s->logger)))' % (c, c, c)]
    if flav in ('Guard', 'Full', 'Plan'):
        pl = CTL[flav]['plan']
        rt.append(fresh('%s._currentTransition' % pl, '*%s._currentTransition' % pl))
    if flav == 'Guard':
        rt.append(fresh('control->_pendingTransition', '*control->_pendingTransition'))
    if ev:
        rt.append('{fresh:event}')
    return rt

def c_phase_contract(cb, post_side):
    """C_::deepPreUpdate ... deepPostReact: head and active sub-state, each exactly once, in the fixed order"""
    mid, flav, ev = CB[cb]
    k = K[mid]
    c = core(flav)
    act = '%s->registry.active' % c
    first, second = (1, 0) if post_side else (0, 1)
    pl = CTL[flav]['plan']
    return dict(
        requires_target=c_target_req(flav, ev),
        requires=['g_clock < ' + BOUND['C'], '%s < %s' % (act, N)] + zero([k]) + (['{ptr:event} == g_event'] if ev else []),
        assigns=['g_clock', 'g_lastreq'] + marks([k]) + ['%s->request' % c, '%s->planData' % c, '%s._taskStatus' % pl, '%s._originId' % CTL[flav]['ctl']],
        ensures=[('C05', '__CPROVER_old(g_clock) < %s && %s < %s && %s <= g_clock' % (tk(k, first), tk(k, first), tk(k, second), tk(k, second))),
                 ('C05', 'g_st[%d][0] == 255 && g_st[%d][1] == %s' % (k, k, act)),
                 ('C02', '((%s && %s) || (%s->request._b0.destination < %s && %s->request._b0.method == Method__NONE && (%s->request._b0.origin == 255 || %s->request._b0.origin == %s) && %s))'
                  % (t_eq('%s->request' % c, '__CPROVER_old(%s->request)' % c), t_eq('g_lastreq', '__CPROVER_old(g_lastreq)'), c, N, c, c, c, act, t_eq('g_lastreq', '%s->request' % c))),
                 'g_clock <= __CPROVER_old(g_clock) + 40',
                 ('C06', '%s._originId == __CPROVER_old(%s._originId)' % (CTL[flav]['ctl'], CTL[flav]['ctl']))])

def c_unit(name, fn, cbs, contract, extra_contracts=None, props=None, nparams=1, heads=True, subs=True, **kw):
    contracts = {fn: contract}
    for cb in cbs:
        sfx = '__Ev' if CB[cb][2] else ''
        if heads:
            contracts['S_head__%s%s' % (DEEP[cb], sfx)] = head_contract(cb)
        if subs:
            contracts['CS___%s%s' % (WIDE[cb], sfx)] = sub_contract(cb)
    contracts.update(extra_contracts or {})
    u = dict(id='structure.C_.%s' % name, witness=W, recs=C_RECS, opaque=C_OPAQUE, opaque_keep=C_KEEP, props=props or ['C01', 'C05', 'C18'],
             target=dict(cls=C_RECS['C_'], name=name, nparams=nparams), consts=CONSTS, need_consts=['ArgsT.STATE_COUNT'], ghost=GHOST,
             calls=C_CALLS, contracts=contracts)
    u.update(kw)
    return u

C_PHASES = [('preUpdate', False), ('update', False), ('postUpdate', True), ('preReact', False), ('react', False), ('postReact', True)]
UNITS += [c_unit(DEEP[cb], 'C___%s%s' % (DEEP[cb], '__Ev' if CB[cb][2] else ''), [cb], c_phase_contract(cb, post), nparams=2 if CB[cb][2] else 1, props=['C05', 'C02', 'C06', 'C18'])
          for cb, post in C_PHASES]

# ---- C_ lifecycle (C01): enter / exit / changeToRequested
def cur_surv(flav):
    pl = CTL[flav]['plan']
    return [implies('g_has_surv', t_eq('(*%s._currentTransition)' % pl, 'g_surv'))]

PC = core('Plan')
ACT = PC + '->registry.active'
REQD = PC + '->registry.requested'
LIFE_ASSIGNS = ['g_clock', 'g_entered', 'g_root_entered', PC + '->registry', PC + '->planData', 'control->_b0._originId']
C_ENTER = dict(
    requires_target=c_target_req('Plan'),
    requires=['g_clock < ' + BOUND['C'], '%s < %s' % (REQD, N), ACT + ' == 255', '!g_root_entered && g_entered == 255'] + zero([K['ENTER']]) + cur_surv('Plan'),
    assigns=LIFE_ASSIGNS + marks([K['ENTER']]),
    ensures=[('C01', '%s == __CPROVER_old(%s) && %s == 255' % (ACT, REQD, REQD)),
             ('C01', 'g_root_entered && g_entered == ' + ACT),
             # the root's enter() precedes the state's
             ('C01', '__CPROVER_old(g_clock) < %s && %s < %s && %s <= g_clock' % (tk(2, 0), tk(2, 0), tk(2, 1), tk(2, 1))),
             ('C01', 'g_st[2][0] == 255 && g_st[2][1] == ' + ACT),
             'g_clock <= __CPROVER_old(g_clock) + 40', 'control->_b0._originId == __CPROVER_old(control->_b0._originId)'])
C_EXIT = dict(
    requires_target=c_target_req('Plan'),
    requires=['g_clock < ' + BOUND['C'], '%s < %s' % (ACT, N), 'g_root_entered && g_entered == ' + ACT] + zero([K['EXIT']]),
    assigns=LIFE_ASSIGNS + marks([K['EXIT']]),
    ensures=[('C01', ACT + ' == 255'), ('C01', '!g_root_entered && g_entered == 255'),
             # the active state's exit() precedes the root's
             ('C01', '__CPROVER_old(g_clock) < %s && %s < %s && %s <= g_clock' % (tk(12, 1), tk(12, 1), tk(12, 0), tk(12, 0))),
             ('C01', 'g_st[12][0] == 255 && g_st[12][1] == __CPROVER_old(%s)' % ACT),
             '%s == __CPROVER_old(%s)' % (REQD, REQD),
             'g_clock <= __CPROVER_old(g_clock) + 40', 'control->_b0._originId == __CPROVER_old(control->_b0._originId)'])
C_CHANGE = dict(
    requires_target=c_target_req('Plan'),
    requires=['g_clock < ' + BOUND['C'], '%s < %s' % (REQD, N), '%s < %s' % (ACT, N), 'g_root_entered && g_entered == ' + ACT]
             + zero([K['ENTER'], K['EXIT'], K['REENTER']], (1,)) + cur_surv('Plan'),
    assigns=LIFE_ASSIGNS + marks([K['ENTER'], K['EXIT'], K['REENTER']], (1,)),
    ensures=[('C01', '%s == __CPROVER_old(%s) && %s == 255' % (ACT, REQD, REQD)),
             ('C01', 'g_root_entered && g_entered == ' + ACT),
             # exit(old) then enter(new), or reenter() alone when the state is already active
             ('C02', implies('__CPROVER_old(%s) != __CPROVER_old(%s)' % (REQD, ACT),
                             '__CPROVER_old(g_clock) < %s && %s < %s && %s <= g_clock && g_st[12][1] == __CPROVER_old(%s) && g_st[2][1] == %s && %s == 0'
                             % (tk(12, 1), tk(12, 1), tk(2, 1), tk(2, 1), ACT, ACT, tk(3, 1)))),
             ('C02', implies('__CPROVER_old(%s) == __CPROVER_old(%s)' % (REQD, ACT),
                             '%s && g_st[3][1] == %s && %s == 0 && %s == 0' % (ticked(3, 1), ACT, tk(2, 1), tk(12, 1)))),
             'g_clock <= __CPROVER_old(g_clock) + 40', 'control->_b0._originId == __CPROVER_old(control->_b0._originId)'])
UNITS += [
    c_unit('deepEnter', 'C___deepEnter', ['enter'], C_ENTER, props=['C01', 'C14', 'C18']),
    c_unit('deepExit', 'C___deepExit', ['exit'], C_EXIT, extra_contracts=PLAN_CLEAR, props=['C01', 'C18']),
    c_unit('deepChangeToRequested', 'C___deepChangeToRequested', ['enter', 'exit', 'reenter'], C_CHANGE, props=['C01', 'C02', 'C18'], heads=False),
]

# ---- C_ guards (C03) and query
GC = core('Guard')
G_ACT = GC + '->registry.active'
G_REQD = GC + '->registry.requested'
GUARD_ASSIGNS = ['g_clock', 'g_lastreq', GC + '->request', GC + '->planData', 'control->_b0._b0._b0._taskStatus', 'control->_cancelled', 'control->_b0._b0._b0._b0._originId']
def guard_view():
    """what every guard must be shown (C06/C07): the request under evaluation and the transition accepted so far"""
    return ['(control->_pendingTransition->_b0.destination == %s || (control->_pendingTransition->_b0.destination == 255 && %s == 255))' % (G_REQD, G_ACT),
            implies('g_has_surv', t_eq('(*control->_b0._b0._b0._currentTransition)', 'g_surv')),
            implies('!g_has_surv', t_default('(*control->_b0._b0._b0._currentTransition)'))]
def guard_effects(who_states):
    """request closure over the states consulted"""
    alts = ' || '.join('%s->request._b0.origin == %s' % (GC, s) for s in who_states)
    return [('C03', '__CPROVER_return_value == (!__CPROVER_old(control->_cancelled) && control->_cancelled)'),
            ('C02', '((%s && %s) || (%s->request._b0.destination < %s && %s->request._b0.method == Method__NONE && (%s) && %s))'
             % (t_eq(GC + '->request', '__CPROVER_old(%s->request)' % GC), t_eq('g_lastreq', '__CPROVER_old(g_lastreq)'), GC, N, GC, alts, t_eq('g_lastreq', GC + '->request'))),
            'control->_b0._b0._b0._b0._originId == __CPROVER_old(control->_b0._b0._b0._b0._originId)',
            'g_clock <= __CPROVER_old(g_clock) + 40']
def c_guard(kid, st, heads):
    whos = (0, 1) if heads else (1,)
    req = ['g_clock < ' + BOUND['C'], '%s < %s' % (st, N), '!control->_cancelled'] + guard_view()
    asg = GUARD_ASSIGNS + marks([kid], whos)
    ens = []
    if heads:
        # head first; the sub-state's guard is consulted iff the head did not newly cancel (short-circuit)
        ens.append(('C03', '%s && g_st[%d][0] == 255' % (ticked(kid, 0), kid)))
        ens.append(('C03', implies('!(%s && !__CPROVER_old(control->_cancelled))' % 'control->_cancelled', '%s && %s < %s && g_st[%d][1] == %s' % (ticked(kid, 1), tk(kid, 0), tk(kid, 1), kid, st))))
    else:
        ens.append(('C03', '%s && g_st[%d][1] == %s' % (ticked(kid, 1), kid, st)))
    ens += guard_effects(['255', st] if heads else [st])
    return dict(requires_target=c_target_req('Guard'), requires=req, assigns=asg, ensures=ens)

QC = core('Const')
C_QUERY = dict(
    requires_target=c_target_req('Const', True),
    requires=['g_clock < ' + BOUND['C'], '%s->registry.active < %s' % (QC, N), '{ptr:event} == g_event'] + zero([K['QUERY']]),
    # C05: query leaves the machine unchanged -- nothing of the core is in the frame
    assigns=['g_clock', 'control->_originId'] + marks([K['QUERY']]),
    ensures=[('C05', '%s && %s' % (ticked(9, 0), ticked(9, 1))), ('C05', 'g_st[9][0] == 255 && g_st[9][1] == %s->registry.active' % QC),
             'control->_originId == __CPROVER_old(control->_originId)', 'g_clock <= __CPROVER_old(g_clock) + 40'])
UNITS += [
    c_unit('deepForwardExitGuard', 'C___deepForwardExitGuard', ['exitGuard'], c_guard(11, G_ACT, False), props=['C03', 'C18'], heads=False),
    c_unit('deepForwardEntryGuard', 'C___deepForwardEntryGuard', ['entryGuard'], c_guard(1, G_REQD, False), props=['C03', 'C18'], heads=False),
    c_unit('deepEntryGuard', 'C___deepEntryGuard', ['entryGuard'], c_guard(1, G_REQD, True), props=['C03', 'C04', 'C18']),
    c_unit('deepQuery', 'C___deepQuery__Ev', ['query'], C_QUERY, props=['C05', 'C18'], nparams=2),
]

# =============================================================================================
# R_ layer
LIM = 'R___SUBSTITUTION_LIMIT'
RC = 'self->_core'
R_ACT = RC + '.registry.active'
R_REQD = RC + '.registry.requested'
R_OPAQUE = OPAQUE + [r'^ffsm2::detail::C_<']
R_KEEP = {'PlanDataT': ['headStatus', 'subStatus', 'planExists']}
R_TARGET = [fresh('self'), '(%s.logger == (void*)0 || __CPROVER_is_fresh(%s.logger, sizeof(*%s.logger)))' % (RC, RC, RC)]
def t_empty(a):
    return '(%s._b0.destination == 255)' % a
INV = ['%s < %s' % (R_ACT, N), R_REQD + ' == 255', 'g_root_entered && g_entered == ' + R_ACT]      # machine invariant between API calls (C01)
INV_POST = [('C01', '%s < %s && %s == 255' % (R_ACT, N, R_REQD)), ('C01', 'g_root_entered && g_entered == ' + R_ACT)]
REQ_INV = [req_ok(RC + '.request'), implies('!' + t_empty(RC + '.request'), t_eq(RC + '.request', 'g_lastreq'))]

LIFE1 = [K['ENTER'], K['REENTER'], K['EXIT']]
R_GUARDS = dict(
    requires_target=R_TARGET + ['{fresh:{p0}}', '{fresh:{p1}}'],
    requires=['g_clock < 50000u', '{p1}->_b0.destination == ' + R_REQD, '{p1}->_b0.destination < ' + N, '%s < %s' % (R_ACT, N),
              # C06 / C07: the guards are shown the outstanding request exactly as it was issued, and the transition accepted so far
              t_eq('(*{p1})', 'g_lastreq'),
              implies('g_has_surv', t_eq('(*{p0})', 'g_surv')), implies('!g_has_surv', t_default('(*{p0})'))],
    assigns=[RC + '.request', RC + '.planData', 'g_lastreq', 'g_clock'] + marks([K['ENTRY_GUARD'], K['EXIT_GUARD']], (1,)),
    assigns_callee=['g_rounds', 'g_surv', 'g_has_surv', 'g_lasteval'],
    ensures=[# C03: exit guard of the active state first; the entry guard of the destination only if the exit guard did not cancel
             ('C03', '%s && g_st[11][1] == %s' % (ticked(11, 1), R_ACT)),
             ('C03', implies('!__CPROVER_return_value', '%s && %s < %s && g_st[1][1] == %s' % (ticked(1, 1), tk(11, 1), tk(1, 1), R_REQD))),
             ('C03', '(%s == __CPROVER_old(%s) || (%s < %s && g_st[1][1] == %s))' % (tk(1, 1), tk(1, 1), tk(11, 1), tk(1, 1), R_REQD)),
             'g_clock <= __CPROVER_old(g_clock) + 90',
             ('C02', '((%s && %s) || (%s.request._b0.destination < %s && %s.request._b0.method == Method__NONE && %s))'
              % (t_eq(RC + '.request', '__CPROVER_old(%s.request)' % RC), t_eq('g_lastreq', '__CPROVER_old(g_lastreq)'), RC, N, RC, t_eq('g_lastreq', RC + '.request')))],
    ensures_callee=['g_rounds == __CPROVER_old(g_rounds) + 1', t_eq('g_lasteval', '(*{p1})'),
                    implies('!__CPROVER_return_value', 'g_has_surv && ' + t_eq('g_surv', '(*{p1})')),
                    implies('__CPROVER_return_value', 'g_has_surv == __CPROVER_old(g_has_surv) && ' + t_eq('g_surv', '__CPROVER_old(g_surv)'))])

def life_effect(pre_active, surv_dest):
    """C02: exit(old) then enter(new), or reenter() alone if that state is already active"""
    return [implies('%s != %s' % (pre_active, surv_dest),
                    '%s && %s < %s && g_st[12][1] == %s && g_st[2][1] == %s && %s == 0' % (ticked(12, 1), tk(12, 1), tk(2, 1), pre_active, surv_dest, tk(3, 1))),
            implies('%s == %s' % (pre_active, surv_dest), '%s && g_st[3][1] == %s && %s == 0 && %s == 0' % (ticked(3, 1), surv_dest, tk(2, 1), tk(12, 1)))]

PT_ASSIGNS = ['__CPROVER_object_whole(self)', '*currentTransition', 'g_rounds', 'g_surv', 'g_has_surv', 'g_lastreq', 'g_lasteval', 'g_clock', 'g_entered', 'g_root_entered'] + \
             marks([K['ENTRY_GUARD'], K['EXIT_GUARD']] + LIFE1, (1,))
# every request issued is accounted for: put before the guards, still outstanding, or dropped as a duplicate of the
# transition accepted so far.  On the pinned tree "duplicate" means: same destination as an accepted *bare* request
# (origin invalid, no payload) -- which also drops requests that differ in origin / payload (known finding F9).
DEDUPE = '(g_lastreq._b0.destination == (*currentTransition)._b0.destination && (*currentTransition)._b0.origin == 255 && !(*currentTransition).payloadSet && (*currentTransition)._b0.method == Method__NONE)'
ACCOUNTED = '(%s || %s || %s)' % (t_eq('g_lastreq', 'g_lasteval'), '(!%s && %s)' % (t_empty(RC + '.request'), t_eq(RC + '.request', 'g_lastreq')), DEDUPE)
R_PT = dict(
    requires_target=R_TARGET + [fresh('currentTransition')],
    requires=['g_clock < ' + BOUND['R'], RC + '.request._b0.destination < ' + N, t_eq(RC + '.request', 'g_lastreq'), '%s < %s' % (R_ACT, N),
              'g_root_entered && g_entered == ' + R_ACT, t_default('(*currentTransition)'), 'g_rounds == 0', '!g_has_surv'] + zero(LIFE1, (1,)),
    assigns=PT_ASSIGNS,
    ensures=[('C04', 'g_rounds <= ' + LIM),
             # progress: processing stops early only because nothing is outstanding any more -- a request still outstanding at the
             # end has seen the full number of rounds (C02: a request takes effect when the machine next processes requests)
             ('C02,C04', '(%s || g_rounds == %s)' % (t_empty(RC + '.request'), LIM)),
             ('C02', implies('g_has_surv', '%s == g_surv._b0.destination' % R_ACT)),
             ('C02', implies('!g_has_surv', '%s == __CPROVER_old(%s)' % (R_ACT, R_ACT))),
             ('C02', implies('!g_has_surv', '%s == 0 && %s == 0 && %s == 0' % (tk(2, 1), tk(3, 1), tk(12, 1)))),
             ('C11', implies('g_has_surv', t_eq('(*currentTransition)', 'g_surv'))),
             ('C11', implies('!g_has_surv', t_empty('(*currentTransition)'))),
             ('C01', R_REQD + ' == 255'), ('C01', '%s < %s && g_root_entered && g_entered == %s' % (R_ACT, N, R_ACT)),
             ('C04', REQ_INV[0]), ('C04', REQ_INV[1]), 'g_clock <= __CPROVER_old(g_clock) + 30000 && g_clock >= __CPROVER_old(g_clock)',
             ('C07', ACCOUNTED),
             ('C07,C11#F9-duplicate-request-dropped', implies('!%s && !(!%s && %s)' % (t_eq('g_lastreq', 'g_lasteval'), t_empty(RC + '.request'), t_eq(RC + '.request', 'g_lastreq')), t_eq('g_lastreq', '(*currentTransition)')))]
            + [('C02', implies('g_has_surv', x)) for x in life_effect('__CPROVER_old(%s)' % R_ACT, 'g_surv._b0.destination')],
    loops={0: dict(
        assigns=['i', 'pendingTransition'] + PT_ASSIGNS,
        invariant=['i <= ' + LIM, 'g_rounds <= i', '(%s || g_rounds == i)' % t_empty(RC + '.request'), 'g_clock <= __CPROVER_loop_entry(g_clock) + 100u * i', 'g_clock >= __CPROVER_loop_entry(g_clock)',
                   'control._currentTransition == currentTransition && control._b0._core == &self->_core && control._b0._originId == 255',
                   implies('g_has_surv', t_eq('(*currentTransition)', 'g_surv') + ' && g_surv._b0.destination < ' + N),
                   implies('!g_has_surv', t_default('(*currentTransition)')),
                   # the destination deepChangeToRequested() will enter is the survivor's (what F1 broke)
                   implies('g_has_surv', R_REQD + ' == g_surv._b0.destination'),
                   REQ_INV[0], REQ_INV[1], ACCOUNTED,
                   '%s == __CPROVER_loop_entry(%s)' % (R_ACT, R_ACT), 'g_root_entered && g_entered == ' + R_ACT] + zero(LIFE1, (1,)),
        decreases=LIM + ' - i')})

R_RECS = dict(RECS)
R_CALLS = {'re:^C___': 'contract'}
def r_unit(name, fn, contract, callee_contracts, props, nparams, calls=None, cls=r'^ffsm2::detail::R_<', **kw):
    contracts = {fn: contract}
    contracts.update(callee_contracts)
    # every lifecycle function of the composite has its contract available: an R_ function that calls the wrong one
    # (deepEnter where deepChangeToRequested is due) is checked against that one's precondition
    for k, c in (('C___deepEnter', C_ENTER), ('C___deepExit', C_EXIT), ('C___deepChangeToRequested', C_CHANGE)):
        contracts.setdefault(k, dict(c, optional=True))
    cl = dict(R_CALLS); cl.update(calls or {})
    u = dict(id='root.%s' % name, witness=W, recs=R_RECS, opaque=R_OPAQUE, opaque_keep=R_KEEP, props=props,
             target=dict(cls=cls, name=name.split('.')[0], nparams=nparams), consts=CONSTS, need_consts=['ArgsT.STATE_COUNT', 'R_.SUBSTITUTION_LIMIT'], ghost=GHOST, calls=cl, contracts=contracts)
    u.update(kw)
    return u

UNITS += [
    r_unit('processTransitions', 'R___processTransitions', R_PT,
           {'R___cancelledByGuards': R_GUARDS, 'C___deepChangeToRequested': C_CHANGE},
           ['C02', 'C03', 'C04', 'C07', 'C11', 'C01', 'C18'], 1, calls={'R___cancelledByGuards': 'contract'}),
    r_unit('cancelledByGuards', 'R___cancelledByGuards', R_GUARDS,
           {'C___deepForwardExitGuard': c_guard(11, G_ACT, False), 'C___deepForwardEntryGuard': c_guard(1, G_REQD, False)},
           ['C03', 'C06', 'C07', 'C18'], 2),
]

# ---- the same step with R_::cancelledByGuards *inlined* (bounded stand-in next to the modular proof above): the target contract is
# R_PT unchanged, the only callees under contract are the composite's guards and deepChangeToRequested, so the unit does not depend
# on how processTransitions / cancelledByGuards divide the work between them (signatures, where the GuardControl lives).
# The history variables the modular proof attaches to cancelledByGuards are attached to the two guard calls instead: the exit guards
# are consulted exactly once per round, first; the request survives the round iff the entry guards are reached and do not cancel.
def _inl_exit():
    c = dict(c_guard(11, G_ACT, False))
    c['requires'] = c['requires'] + [t_eq('(*control->_pendingTransition)', 'g_lastreq')]
    c['assigns_callee'] = ['g_rounds', 'g_lasteval']
    c['ensures_callee'] = ['g_rounds == __CPROVER_old(g_rounds) + 1', t_eq('g_lasteval', '(*control->_pendingTransition)')]
    return c
def _inl_entry():
    c = dict(c_guard(1, G_REQD, False))
    c['assigns_callee'] = ['g_surv', 'g_has_surv']
    c['ensures_callee'] = [implies('!__CPROVER_return_value', 'g_has_surv && ' + t_eq('g_surv', '(*control->_pendingTransition)')),
                           implies('__CPROVER_return_value', 'g_has_surv == __CPROVER_old(g_has_surv) && ' + t_eq('g_surv', '__CPROVER_old(g_surv)'))]
    return c
R_PT_BOUNDED = {k: v for k, v in R_PT.items() if k != 'loops'}
UNITS += [
    r_unit('processTransitions.inlined', 'R___processTransitions', R_PT_BOUNDED,
           {'C___deepForwardExitGuard': _inl_exit(), 'C___deepForwardEntryGuard': _inl_entry(), 'C___deepChangeToRequested': C_CHANGE},
           ['C02', 'C03', 'C04', 'C07', 'C11', 'C01', 'C18'], 1, calls={'re:^R___cancelledBy': 'body'},
           consts=dict(CONSTS, G__NSubstitutionLimit=('range', 1, 3)), unwind_target_loops={0: 4}, object_bits=12,
           bounded='substitution limit <= 3 (substitution loop unwound, cancelledByGuards inlined); the unbounded proof is root.processTransitions + root.cancelledByGuards'),
]

# ---- logger records for requests / cancellations / task status (C16)
GHOST += ['uint32_t g_rec_t; uint8_t g_rec_kind; uint8_t g_rec_a; uint8_t g_rec_b;   /* last non-method logger record: 1 transition(origin,target) 2 cancelled(origin) 3 task status(origin,event) */']
def rec_contract(kind, a, b):
    return dict(optional=True, requires=['g_clock < ' + BIG + ' * 2'], assigns=['g_clock', 'g_rec_t', 'g_rec_kind', 'g_rec_a', 'g_rec_b'],
                ensures=['g_clock == __CPROVER_old(g_clock) + 1 && g_rec_t == g_clock && g_rec_kind == %d && g_rec_a == %s && g_rec_b == %s' % (kind, a, b)])
LOGREC = {'LoggerInterfaceT__recordTransition': rec_contract(1, '_unnamed1', '_unnamed2'),
          'LoggerInterfaceT__recordCancelledPending': rec_contract(2, '_unnamed1', '0'),
          'LoggerInterfaceT__recordTaskStatus': rec_contract(3, '_unnamed1', '_unnamed2')}
def logged(kind, a, b, logger):
    """with a logger attached the call produces exactly one record with these arguments; none without"""
    return [('C16', implies('%s != (void*)0' % logger, 'g_rec_t == __CPROVER_old(g_clock) + 1 && g_clock == g_rec_t && g_rec_kind == %d && g_rec_a == %s && g_rec_b == %s' % (kind, a, b))),
            ('C16', implies('%s == (void*)0' % logger, 'g_clock == __CPROVER_old(g_clock) && g_rec_t == __CPROVER_old(g_rec_t)'))]
REC_ASSIGNS = ['g_clock', 'g_rec_t', 'g_rec_kind', 'g_rec_a', 'g_rec_b']

# ---- R_: making requests (C02: a request never changes the active state when made -- the registry is not in the frame)
R_CHANGETO = dict(
    requires_target=R_TARGET, requires=['g_clock < ' + BOUND['R']],
    assigns=[RC + '.request'] + REC_ASSIGNS, assigns_callee=['g_lastreq'],
    ensures=[('C02', '%s.request._b0.destination == stateId_ && %s.request._b0.origin == 255 && %s.request._b0.method == Method__NONE && !%s.request.payloadSet' % (RC, RC, RC, RC))]
            + logged(1, '255', 'stateId_', RC + '.logger'),
    ensures_callee=[t_eq('g_lastreq', RC + '.request')])

PR_ASSIGNS = [x for x in PT_ASSIGNS if x != '*currentTransition']
def pr_ensures(pre_active):
    return [('C04', 'g_rounds <= ' + LIM),
            ('C02', implies('g_has_surv', '%s == g_surv._b0.destination' % R_ACT)),
            ('C02', implies('!g_has_surv', '%s == %s' % (R_ACT, pre_active))),
            ('C02', implies('!g_has_surv', '%s == 0 && %s == 0 && %s == 0' % (tk(2, 1), tk(3, 1), tk(12, 1)))),
            # C11: the history is the transition actually applied (empty if none)
            ('C11', implies('g_has_surv', t_eq(RC + '.previousTransition', 'g_surv'))),
            ('C11', implies('!g_has_surv', t_empty(RC + '.previousTransition'))),
            ('C11', implies('!' + t_empty(RC + '.previousTransition'), '%s.previousTransition._b0.destination == %s' % (RC, R_ACT))),
            ('C04', REQ_INV[0]), ('C04', REQ_INV[1])] + INV_POST + \
           [('C02', implies('g_has_surv', x)) for x in life_effect(pre_active, 'g_surv._b0.destination')]
R_PR = dict(
    requires_target=R_TARGET,
    requires=['g_clock < 900u', 'g_rounds == 0', '!g_has_surv'] + INV + REQ_INV + zero(LIFE1, (1,)),
    assigns=PR_ASSIGNS,
    ensures=pr_ensures('__CPROVER_old(%s)' % R_ACT) + ['g_clock >= __CPROVER_old(g_clock) && g_clock <= __CPROVER_old(g_clock) + 30000',
                                                    # every guard / lifecycle delivery of this step happens after it started
                                                    ] + ['(%s == 0 || %s > __CPROVER_old(g_clock))' % (tk(k, 1), tk(k, 1)) for k in LIFE1])

UNITS += [
    r_unit('processRequest', 'R___processRequest', R_PR, {'R___processTransitions': R_PT}, ['C02', 'C04', 'C11', 'C01', 'C18'], 0,
           calls={'R___processTransitions': 'contract'}),
    r_unit('changeTo', 'R___changeTo__1', R_CHANGETO, dict(LOGREC), ['C02', 'C16', 'C18'], 1, calls={'re:^LoggerInterfaceT__': 'contract'}),
    r_unit('immediateChangeTo', 'R___immediateChangeTo__1',
           dict(requires_target=R_TARGET, requires=['g_clock < 800u', 'stateId_ < ' + N, 'g_rounds == 0', '!g_has_surv'] + INV + zero(LIFE1, (1,)),
                assigns=PR_ASSIGNS + REC_ASSIGNS,
                ensures=pr_ensures('__CPROVER_old(%s)' % R_ACT)),
           {'R___changeTo__1': R_CHANGETO, 'R___processRequest': R_PR}, ['C02', 'C04', 'C11', 'C01', 'C18'], 1,
           calls={'R___changeTo__1': 'contract', 'R___processRequest': 'contract'}),
]

# ---- R_::update / react / query (C05)
FC = core('Full')
C_UPDATE_PLANS = dict(     # C_::deepUpdatePlans as seen from R_ (proved in contracts/plans.py against the plan data)
    requires=['g_clock < ' + BOUND['C'], '%s->registry.active < %s' % (FC, N)] + zero([13, 14], (0,)),
    assigns=['g_clock', 'g_lastreq', FC + '->request', FC + '->planData', 'control->_b0._b0._taskStatus', 'control->_b0._b0._b0._originId'] + marks([13, 14], (0,)) + REC_ASSIGNS,
    ensures=['((%s && %s) || (%s->request._b0.destination < %s && %s->request._b0.method == Method__NONE && %s))'
             % (t_eq(FC + '->request', '__CPROVER_old(%s->request)' % FC), t_eq('g_lastreq', '__CPROVER_old(g_lastreq)'), FC, N, FC, t_eq('g_lastreq', FC + '->request')),
             'g_clock >= __CPROVER_old(g_clock) && g_clock <= __CPROVER_old(g_clock) + 600',
             'control->_b0._b0._b0._originId == __CPROVER_old(control->_b0._b0._b0._originId)'])
def r_cycle(kinds, ev):
    a, b, c3 = kinds
    chain = [tk(a, 0), tk(a, 1), tk(b, 0), tk(b, 1), tk(c3, 1), tk(c3, 0)]
    order = '__CPROVER_old(g_clock) < %s && ' % chain[0] + ' && '.join('%s < %s' % (chain[i], chain[i + 1]) for i in range(5))
    pre_act = '__CPROVER_old(%s)' % R_ACT
    return dict(
        requires_target=R_TARGET + (['{fresh:event}'] if ev else []),
        requires=['g_clock < 100u', 'g_rounds == 0', '!g_has_surv', '!g_region_cleared'] + INV + REQ_INV + zero(list(kinds) + [13, 14]) + zero(LIFE1, (1,)) + (['{ptr:event} == g_event'] if ev else []),
        assigns=PR_ASSIGNS + marks(list(kinds) + [13, 14]) + REC_ASSIGNS + ['g_region_cleared'],
        ensures=[# C05: exactly once each, in this order, root then active state (post phase: active state then root)
                 ('C05', order),
                 ('C05', ' && '.join('g_st[%d][0] == 255 && g_st[%d][1] == %s' % (k, k, pre_act) for k in kinds)),
                 # ... and the state active at the start gets all its phase callbacks before any exit/enter/reenter caused by requests of this call
                 ('C05', ' && '.join('(%s == 0 || %s > %s)' % (tk(k, 1), tk(k, 1), chain[5]) for k in LIFE1)),
                 # C09: the task results reported during a cycle do not outlive it (whether or not a plan exists)
                 # (every cycle, plan or no plan: the flags are cleared by clearRegionStatuses(), which this records)
                 ('C09', 'g_region_cleared')]
                + pr_ensures(pre_act))
R_UPDATE = r_cycle((4, 5, 6), False)
R_REACT = r_cycle((7, 8, 10), True)
R_QUERY = dict(
    requires_target=R_TARGET + ['{fresh:event}'],
    requires=['g_clock < 100u', '%s < %s' % (R_ACT, N), '{ptr:event} == g_event'] + zero([9]),
    # C05: query leaves the machine unchanged: nothing of *self is in the frame
    assigns=['g_clock'] + marks([9]),
    ensures=[('C05', '%s && %s && g_st[9][0] == 255 && g_st[9][1] == %s' % (ticked(9, 0), ticked(9, 1), R_ACT))])
GHOST += ['_Bool g_region_cleared;   /* the region status flags were cleared in this cycle (history variable, set by clearRegionStatuses) */']
CLEAR_REGION = {'PlanDataT__clearRegionStatuses': dict(requires=[], assigns=['*self'], assigns_callee=['g_region_cleared'],
                                                       ensures=['self->planExists == __CPROVER_old(self->planExists)',
                                                                'self->headStatus.result == TaskStatus_Result__NONE && self->subStatus.result == TaskStatus_Result__NONE'],
                                                       ensures_callee=['g_region_cleared'])}
PHASE_CALLEES_U = {'C___deepPreUpdate': c_phase_contract('preUpdate', False), 'C___deepUpdate': c_phase_contract('update', False), 'C___deepPostUpdate': c_phase_contract('postUpdate', True),
                   'C___deepUpdatePlans': C_UPDATE_PLANS, 'R___processRequest': R_PR}
PHASE_CALLEES_R = {'C___deepPreReact__Ev': c_phase_contract('preReact', False), 'C___deepReact__Ev': c_phase_contract('react', False), 'C___deepPostReact__Ev': c_phase_contract('postReact', True),
                   'C___deepUpdatePlans': C_UPDATE_PLANS, 'R___processRequest': R_PR}
PHASE_CALLEES_U.update(CLEAR_REGION); PHASE_CALLEES_R.update(CLEAR_REGION)
UNITS += [
    r_unit('update', 'R___update', R_UPDATE, PHASE_CALLEES_U, ['C05', 'C02', 'C01', 'C11', 'C18'], 0, calls={'R___processRequest': 'contract', 'PlanDataT__clearRegionStatuses': 'contract'}),
    r_unit('react', 'R___react__Ev', R_REACT, PHASE_CALLEES_R, ['C05', 'C02', 'C01', 'C11', 'C18'], 1, calls={'R___processRequest': 'contract', 'PlanDataT__clearRegionStatuses': 'contract'}),
    r_unit('query', 'R___query__Ev', R_QUERY, {'C___deepQuery__Ev': C_QUERY}, ['C05', 'C18'], 1),
]

# ---- activation / deactivation / replay
R_EGUARDS = dict(
    requires_target=R_TARGET + ['{fresh:{p0}}', '{fresh:{p1}}'],
    requires=['g_clock < 50000u', R_ACT + ' == 255', '%s < %s' % (R_REQD, N),
              '({p1}->_b0.destination == %s || {p1}->_b0.destination == 255)' % R_REQD,
              implies('{p1}->_b0.destination != 255', t_eq('(*{p1})', 'g_lastreq')),
              implies('g_has_surv', t_eq('(*{p0})', 'g_surv')), implies('!g_has_surv', t_default('(*{p0})'))],
    assigns=[RC + '.request', RC + '.planData', 'g_lastreq', 'g_clock'] + marks([K['ENTRY_GUARD']]),
    assigns_callee=['g_rounds', 'g_surv', 'g_has_surv', 'g_lasteval'],
    ensures=[('C03', '%s && g_st[1][0] == 255' % ticked(1, 0)),
             ('C03', implies('!__CPROVER_return_value', '%s && %s < %s && g_st[1][1] == %s' % (ticked(1, 1), tk(1, 0), tk(1, 1), R_REQD))),
             'g_clock <= __CPROVER_old(g_clock) + 90',
             ('C02', '((%s && %s) || (%s.request._b0.destination < %s && %s.request._b0.method == Method__NONE && %s))'
              % (t_eq(RC + '.request', '__CPROVER_old(%s.request)' % RC), t_eq('g_lastreq', '__CPROVER_old(g_lastreq)'), RC, N, RC, t_eq('g_lastreq', RC + '.request')))],
    ensures_callee=['g_rounds == __CPROVER_old(g_rounds) + 1',
                    implies('{p1}->_b0.destination != 255', t_eq('g_lasteval', '(*{p1})')),
                    implies('!__CPROVER_return_value && {p1}->_b0.destination != 255', 'g_has_surv && ' + t_eq('g_surv', '(*{p1})')),
                    implies('__CPROVER_return_value || {p1}->_b0.destination == 255', 'g_has_surv == __CPROVER_old(g_has_surv) && ' + t_eq('g_surv', '__CPROVER_old(g_surv)'))])

IE_ASSIGNS = ['__CPROVER_object_whole(self)', 'g_rounds', 'g_surv', 'g_has_surv', 'g_lastreq', 'g_lasteval', 'g_clock', 'g_entered', 'g_root_entered'] + marks([K['ENTRY_GUARD'], K['ENTER']])
INACTIVE = [R_ACT + ' == 255', '!g_root_entered && g_entered == 255']
R_IE = dict(
    requires_target=R_TARGET,
    requires=['g_clock < ' + BOUND['R'], t_empty(RC + '.request'), 'g_rounds == 0', '!g_has_surv'] + INACTIVE + zero([K['ENTER']]),
    assigns=IE_ASSIGNS,
    ensures=[# C04: one evaluation of the initial state's entry guards plus at most LIMIT redirections
             ('C04', 'g_rounds <= (uint32_t)%s + 1' % LIM),
             ('C02,C04', '(%s || g_rounds == (uint32_t)%s + 1)' % (t_empty(RC + '.request'), LIM)),
             # C14 / C02: the first declared state is the initial state unless an entry guard redirected (last surviving redirect wins)
             ('C02,C14', '%s == (g_has_surv ? g_surv._b0.destination : 0)' % R_ACT),
             ('C11', implies('g_has_surv', t_eq(RC + '.previousTransition', 'g_surv'))),
             ('C11', implies('!g_has_surv', t_empty(RC + '.previousTransition'))),
             ('C01', '__CPROVER_old(g_clock) < %s && %s < %s && g_st[2][0] == 255 && g_st[2][1] == %s' % (tk(2, 0), tk(2, 0), tk(2, 1), R_ACT)),
             ('C04', REQ_INV[0]), ('C04', REQ_INV[1])] + INV_POST,
    loops={0: dict(
        assigns=['i', 'pendingTransition', 'currentTransition'] + IE_ASSIGNS,
        invariant=['i <= ' + LIM, 'g_rounds <= (uint32_t)i + 1', '(%s || g_rounds == (uint32_t)i + 1)' % t_empty(RC + '.request'), 'g_clock <= __CPROVER_loop_entry(g_clock) + 100u * i', 'g_clock >= __CPROVER_loop_entry(g_clock)',
                   'control._currentTransition == &currentTransition && control._b0._core == &self->_core && control._b0._originId == 255',
                   implies('g_has_surv', t_eq('currentTransition', 'g_surv') + ' && g_surv._b0.destination < ' + N),
                   implies('!g_has_surv', t_default('currentTransition')),
                   R_REQD + ' == (g_has_surv ? g_surv._b0.destination : 0)',
                   REQ_INV[0], REQ_INV[1]] + INACTIVE + zero([K['ENTER']]),
        decreases=LIM + ' - i')})

PLANDATA_CLEAR = {'PlanDataT__clear': dict(requires=[], assigns=['*self'], ensures=['!self->planExists'])}
R_FE = dict(
    requires_target=R_TARGET,
    requires=['g_clock < ' + BOUND['R']] + INV + zero([K['EXIT']]),
    assigns=['__CPROVER_object_whole(self)', 'g_clock', 'g_entered', 'g_root_entered'] + marks([K['EXIT']]),
    ensures=[('C01', '%s == 255 && %s == 255' % (R_ACT, R_REQD)), ('C01', '!g_root_entered && g_entered == 255'),
             # deactivation exits the active state and then the root
             ('C01', '__CPROVER_old(g_clock) < %s && %s < %s && %s <= g_clock && g_st[12][1] == __CPROVER_old(%s) && g_st[12][0] == 255' % (tk(12, 1), tk(12, 1), tk(12, 0), tk(12, 0), R_ACT)),
             ('C11', t_empty(RC + '.previousTransition')), ('C02', t_empty(RC + '.request')), ('C09', '!%s.planData.planExists' % RC)])

R_REPLAY = dict(
    requires_target=R_TARGET,
    requires=['g_clock < ' + BOUND['R'], '(destination == 255 || destination < %s)' % N, '!g_has_surv'] + INV + zero(LIFE1, (1,)),
    # C11: no guard is consulted -- no guard mark, no request, no plan status is in the frame
    assigns=['__CPROVER_object_whole(self)', 'g_clock', 'g_entered', 'g_root_entered'] + marks(LIFE1, (1,)),
    ensures=[('C11', '__CPROVER_return_value == (destination != 255)'),
             # replayTransition(invalid) changes nothing (the history may be cleared: the body clears it before testing the id)
             ('C11', implies('destination == 255', '%s == __CPROVER_old(%s) && %s == 255 && g_clock == __CPROVER_old(g_clock) && %s'
                             % (R_ACT, R_ACT, R_REQD, t_eq(RC + '.request', '__CPROVER_old(%s.request)' % RC)))),
             ('C11', implies('destination != 255', '%s == destination && %s.previousTransition._b0.destination == destination && %s.previousTransition._b0.origin == 255 && !%s.previousTransition.payloadSet'
                             % (R_ACT, RC, RC, RC))),
             ('C11', t_eq(RC + '.request', '__CPROVER_old(%s.request)' % RC))] + INV_POST
            + [('C11', implies('destination != 255', x)) for x in life_effect('__CPROVER_old(%s)' % R_ACT, 'destination')])

def _inl_entry_ie():
    """activation: one call of the composite's entry guards per round (history variables as in R_EGUARDS)"""
    c = dict(c_guard(1, G_REQD, True))
    P = '(*control->_pendingTransition)'
    c['requires'] = c['requires'] + [implies(P + '._b0.destination != 255', t_eq(P, 'g_lastreq'))]
    c['assigns_callee'] = ['g_rounds', 'g_surv', 'g_has_surv', 'g_lasteval']
    c['ensures_callee'] = ['g_rounds == __CPROVER_old(g_rounds) + 1',
                           implies(P + '._b0.destination != 255', t_eq('g_lasteval', P)),
                           implies('!__CPROVER_return_value && %s._b0.destination != 255' % P, 'g_has_surv && ' + t_eq('g_surv', P)),
                           implies('__CPROVER_return_value || %s._b0.destination == 255' % P, 'g_has_surv == __CPROVER_old(g_has_surv) && ' + t_eq('g_surv', '__CPROVER_old(g_surv)'))]
    return c
UNITS += [
    r_unit('cancelledByEntryGuards', 'R___cancelledByEntryGuards', R_EGUARDS, {'C___deepEntryGuard': c_guard(1, G_REQD, True)}, ['C03', 'C04', 'C06', 'C07', 'C18'], 2),
    r_unit('initialEnter', 'R___initialEnter', R_IE, {'R___cancelledByEntryGuards': R_EGUARDS, 'C___deepEnter': C_ENTER},
           ['C01', 'C02', 'C03', 'C04', 'C06', 'C07', 'C11', 'C14', 'C18'], 0, calls={'R___cancelledByEntryGuards': 'contract'}),
    r_unit('initialEnter.inlined', 'R___initialEnter', {k: v for k, v in R_IE.items() if k != 'loops'},
           {'C___deepEntryGuard': _inl_entry_ie(), 'C___deepEnter': C_ENTER},
           ['C01', 'C02', 'C03', 'C04', 'C06', 'C07', 'C11', 'C14', 'C18'], 0, calls={'re:^R___cancelledBy': 'body'},
           consts=dict(CONSTS, G__NSubstitutionLimit=('range', 1, 3)), unwind_target_loops={0: 4}, object_bits=12,
           bounded='substitution limit <= 3 (redirect loop unwound, cancelledByEntryGuards inlined); the unbounded proof is root.initialEnter + root.cancelledByEntryGuards'),
    r_unit('finalExit', 'R___finalExit', R_FE, dict({'C___deepExit': C_EXIT}, **PLANDATA_CLEAR), ['C01', 'C09', 'C11', 'C18'], 0, calls={'PlanDataT__clear': 'contract'}),
    r_unit('replayTransition', 'R___replayTransition', R_REPLAY, {'C___deepChangeToRequested': C_CHANGE}, ['C11', 'C01', 'C03', 'C18'], 1),
]

# =============================================================================================
# C16, verbose logging and the head-less apex S_<N, Args, EmptyT<Args>>: a method record for every delivery (even to a state that
# defines no callback), naming that state and that method, and no user callback
WP = 'w_peer'
def s_empty_contract(cb):
    mid, flav, ev = CB[cb]
    kid = K[mid]
    c = core(flav)
    who = 'WHO(%s)' % ST
    ens = [('C16', implies('%s->logger != (void*)0' % c, 'g_lt[%d][%s] == __CPROVER_old(g_clock) + 1 && g_clock == __CPROVER_old(g_clock) + 1' % (kid, who))),
           ('C16', implies('%s->logger == (void*)0' % c, 'g_clock == __CPROVER_old(g_clock)')),
           ('C16', 'g_t[%d][%s] == __CPROVER_old(g_t[%d][%s])' % (kid, who, kid, who))]
    # the logger stub checks nothing about *which* method; the record's method id and state id are checked here:
    ens.append(('C16', implies('%s->logger != (void*)0' % c, 'g_lm == %d && g_ls == %s' % (kid, ST))))
    if cb in ('entryGuard', 'exitGuard'):
        ens.append('__CPROVER_return_value == 0')
    elif flav == 'Full' and cb not in ('planSucceeded', 'planFailed'):
        ens.append('__CPROVER_return_value.result == TaskStatus_Result__NONE')
    rt = [fresh('self'), fresh('control'), fresh(c, '*' + c), '(%s->logger == (void*)0 || __CPROVER_is_fresh(%s->logger, sizeof(*%s->logger)))' % (c, c, c),
          '%s->context == (void*)0 || __CPROVER_is_fresh(%s->context, sizeof(*%s->context))' % (c, c, c)] + (['{fresh:{p-1}}'] if ev else [])
    return dict(requires_target=rt, requires=['g_clock < ' + BOUND['S'], 'g_lt[%d][%s] == 0' % (kid, who)],
                assigns=['g_clock', 'g_lt[%d][%s]' % (kid, who), 'g_lm', 'g_ls'], ensures=ens)
LOG_M = {'LoggerInterfaceT__recordMethod': dict(requires=['g_clock < ' + BIG + ' * 2', '_unnamed2 < 16'], assigns=['g_clock', 'g_lt[_unnamed2][WHO(_unnamed1)]', 'g_lm', 'g_ls'],
                                                ensures=['g_clock == __CPROVER_old(g_clock) + 1', 'g_lt[_unnamed2][WHO(_unnamed1)] == g_clock', 'g_lm == _unnamed2 && g_ls == _unnamed1'])}
def s_empty_unit(cb):
    mid, flav, ev = CB[cb]
    fn = DEEP[cb]
    recs = dict(S_RECS); recs['S_'] = r'^ffsm2::detail::S_<255,.*,ffsm2::detail::A_<ffsm2::detail::B_<'
    return dict(id='structure.S_empty.%s' % fn, witness=WP, recs=recs, opaque=OPAQUE, props=['C16', 'C18'],
                target=dict(cls=recs['S_'], name=fn, nparams=2 if ev else 1), consts=S_CONSTS, need_consts=['ArgsT.STATE_COUNT'],
                ghost=GHOST + ['uint8_t g_lm, g_ls;   /* method and state named by the last method record */'],
                calls=S_CALLS, contracts=dict(LOG_M, **{'@target': s_empty_contract(cb)}))
UNITS += [s_empty_unit(cb) for cb in ('entryGuard', 'enter', 'preUpdate', 'update', 'postUpdate', 'preReact', 'react', 'postReact', 'query', 'exit', 'planSucceeded', 'planFailed')]

# =============================================================================================
# RV_ (activation policy) and RP_ (payload requests)
RV_RECS = dict(R_RECS); RV_RECS.update({'RV_': r'^ffsm2::detail::RV_<', 'RP_': r'^ffsm2::detail::RP_<', 'InstanceT': r'^ffsm2::detail::InstanceT<'})
def at(path, c):
    """restate an R_ contract for a derived object that holds the R_ as base sub-object `path`"""
    def r(x):
        return x.replace('self->_core', path + '._core').replace('__CPROVER_object_whole(self)', '__CPROVER_object_whole(self)')
    out = dict(c)
    for k in ('requires', 'assigns', 'requires_target', 'assigns_callee'):
        if c.get(k) is not None:
            out[k] = [r(x) for x in c[k]]
    for k in ('ensures', 'ensures_callee'):
        if c.get(k) is not None:
            out[k] = [(e[0], r(e[1])) if isinstance(e, tuple) else r(e) for e in c[k]]
    return out
def rv_unit(name, fn, contract, callee_contracts, props, nparams, cls, calls=None, **kw):
    u = r_unit(name, fn, contract, callee_contracts, props, nparams, calls=calls, cls=cls, **kw)
    u['id'] = 'root.RV_.' + name + kw.get('id_suffix', '')
    u['recs'] = RV_RECS
    u.pop('id_suffix', None)
    return u
RP_CHANGEWITH = dict(
    requires_target=[fresh('self'), '{fresh:payload}', '(self->_b0._b0._core.logger == (void*)0 || __CPROVER_is_fresh(self->_b0._b0._core.logger, sizeof(*self->_b0._b0._core.logger)))'],
    requires=['g_clock < ' + BOUND['R'], 'g_j < sizeof(*payload)'],
    assigns=['self->_b0._b0._core.request'] + REC_ASSIGNS, assigns_callee=['g_lastreq'],
    ensures=[('C02,C07', 'self->_b0._b0._core.request._b0.destination == stateId_ && self->_b0._b0._core.request._b0.origin == 255 && self->_b0._b0._core.request._b0.method == Method__NONE && self->_b0._b0._core.request.payloadSet'),
             ('C07', 'self->_b0._b0._core.request.storage[g_j] == ((const uint8_t*)payload)[g_j]')] + logged(1, '255', 'stateId_', 'self->_b0._b0._core.logger'),
    ensures_callee=[t_eq('g_lastreq', 'self->_b0._b0._core.request')])
UNITS += [
    # manual activation: enter() / exit() are initialEnter() / finalExit(); isActive() reports the protocol state
    rv_unit('enter', 'RV___enter', at('self->_b0', dict(R_IE, loops={})), {'R___initialEnter': R_IE}, ['C01', 'C04', 'C11', 'C18'], 0, r'^ffsm2::detail::RV_<',
            calls={'R___initialEnter': 'contract'}, witness_defines=['W_MANUAL']),
    rv_unit('exit', 'RV___exit', at('self->_b0', R_FE), {'R___finalExit': R_FE}, ['C01', 'C18'], 0, r'^ffsm2::detail::RV_<',
            calls={'R___finalExit': 'contract'}, witness_defines=['W_MANUAL']),
    rv_unit('isActive', '@target', dict(requires_target=[fresh('self')], requires=[], assigns=[], ensures=[('C01', '__CPROVER_return_value == (self->_b0._core.registry.active != 255)')]),
            {}, ['C01', 'C06', 'C18'], 0, r'^ffsm2::detail::RV_<', witness_defines=['W_MANUAL']),
    # automatic activation: construction activates, destruction deactivates (so no enter() is left unpaired)
    rv_unit('dtor', 'RV___dtor', at('self->_b0', R_FE), {'R___finalExit': R_FE}, ['C01', 'C18'], 0, r'^ffsm2::detail::RV_<', calls={'R___finalExit': 'contract'},
            target=dict(cls=r'^ffsm2::detail::RV_<', kind='dtor', name='~RV_', nparams=0), id_suffix='.automatic'),
    rv_unit('changeWith', 'RP___changeWith__2', RP_CHANGEWITH, dict(LOGREC), ['C02', 'C07', 'C16', 'C18'], 2, r'^ffsm2::detail::RP_<',
            calls={'re:^LoggerInterfaceT__': 'contract'}, ghost=GHOST + ['uint8_t g_j;']),
]

RVC_ = 'self->_b0._core'
R_IE_RV = at('self->_b0', dict(R_IE, loops={}))
UNITS += [
    rv_unit('immediateChangeWith', 'RP___immediateChangeWith__2',
            dict(requires_target=[fresh('self'), '{fresh:payload}', '(self->_b0._b0._core.logger == (void*)0 || __CPROVER_is_fresh(self->_b0._b0._core.logger, sizeof(*self->_b0._b0._core.logger)))'],
                 requires=[x.replace('self->_core', 'self->_b0._b0._core') for x in (['g_clock < 800u', 'stateId_ < ' + N, 'g_rounds == 0', '!g_has_surv', 'g_j < sizeof(*payload)'] + INV + zero(LIFE1, (1,)))],
                 assigns=[x.replace('self->_core', 'self->_b0._b0._core') for x in PR_ASSIGNS + REC_ASSIGNS],
                 ensures=[(e[0], e[1].replace('self->_core', 'self->_b0._b0._core')) if isinstance(e, tuple) else e.replace('self->_core', 'self->_b0._b0._core') for e in pr_ensures('__CPROVER_old(%s)' % R_ACT)]),
            {'RP___changeWith__2': RP_CHANGEWITH, 'R___processRequest': R_PR}, ['C02', 'C04', 'C07', 'C11', 'C01', 'C18'], 2, r'^ffsm2::detail::RP_<',
            calls={'RP___changeWith__2': 'contract', 'R___processRequest': 'contract'}, ghost=GHOST + ['uint8_t g_j;']),
    # replayEnter (manual activation, replication): enters the given state, runs only enter(), consults no guard
    rv_unit('replayEnter', 'RV___replayEnter',
            dict(requires_target=[fresh('self'), '(%s.logger == (void*)0 || __CPROVER_is_fresh(%s.logger, sizeof(*%s.logger)))' % (RVC_, RVC_, RVC_)],
                 requires=['g_clock < ' + BOUND['R'], 'destination < ' + N, '!g_has_surv', RVC_ + '.registry.active == 255', '!g_root_entered && g_entered == 255'] + zero([K['ENTER']]),
                 assigns=['__CPROVER_object_whole(self)', 'g_clock', 'g_entered', 'g_root_entered'] + marks([K['ENTER']]),
                 ensures=[('C11', '%s.registry.active == destination && %s.registry.requested == 255' % (RVC_, RVC_)), ('C01', 'g_root_entered && g_entered == destination'),
                          ('C11', '%s.previousTransition._b0.destination == destination && %s.previousTransition._b0.origin == 255 && !%s.previousTransition.payloadSet' % (RVC_, RVC_, RVC_)),
                          ('C01', '__CPROVER_old(g_clock) < %s && %s < %s && g_st[2][0] == 255 && g_st[2][1] == destination' % (tk(2, 0), tk(2, 0), tk(2, 1)))]),
            {'C___deepEnter': C_ENTER}, ['C11', 'C01', 'C03', 'C18'], 1, r'^ffsm2::detail::RV_<', witness_defines=['W_MANUAL']),
]

# ---- construction: R_(context, logger) builds the core; an automatic machine activates in its constructor
CORE_INIT = dict(     # CoreT(context, logger) as proved in contracts/c17.py (c17.CoreT.ctor), seen with the plan data opaque
    requires=[], assigns=['*self'],
    ensures=['self->context == {p0} && self->logger == {p1}', 'self->registry.active == 255 && self->registry.requested == 255',
             t_default('self->request'), t_default('self->previousTransition'), '!self->planData.planExists'])
R_CTOR = dict(
    requires_target=[fresh('self')], requires=[], assigns=['*self'],
    ensures=[('C17,C01', '%s.registry.active == 255 && %s.registry.requested == 255' % (RC, RC)), ('C17,C02', t_empty(RC + '.request')), ('C17,C11', t_default(RC + '.previousTransition')),
             ('C17,C06', '%s.context == {p0} && %s.logger == {p1}' % (RC, RC)), ('C17,C09', '!%s.planData.planExists' % RC)])
UNITS += [
    r_unit('ctor', '@target', R_CTOR, {'@re:^CoreT__ctor2': CORE_INIT}, ['C17', 'C01', 'C18'], 2, calls={'re:^CoreT__ctor2': 'contract'},
           target=dict(cls=r'^ffsm2::detail::R_<', kind='ctor', name='R_', nparams=2, sig=r'^void \(Ctx &,')),
    # automatic activation: the constructor leaves the machine active in the initial state (or where the entry guards redirected)
    rv_unit('ctor', '@target',
            dict(requires_target=[fresh('self'), '({p1} == (void*)0 || __CPROVER_is_fresh({p1}, sizeof(*{p1})))'],
                 requires=[x for x in R_IE['requires'] if 'self->' not in x],
                 assigns=IE_ASSIGNS,
                 ensures=[(e[0], e[1].replace('self->_core', 'self->_b0._core')) if isinstance(e, tuple) else e.replace('self->_core', 'self->_b0._core') for e in R_IE['ensures']]),
            {'@re:^R___ctor2': dict(R_CTOR, requires_target=[]), 'R___initialEnter': R_IE}, ['C01', 'C04', 'C11', 'C14', 'C17', 'C18'], 2, r'^ffsm2::detail::RV_<',
            calls={'re:^R___ctor2': 'contract', 'R___initialEnter': 'contract'},
            target=dict(cls=r'^ffsm2::detail::RV_<', kind='ctor', name='RV_', nparams=2, sig=r'^void \(Ctx &,'), id_suffix='.automatic'),
]
# ---- R_ accessors the user reads the machine through
def r_acc(id_, name, ensures, nparams=0, **kw):
    return r_unit(id_, '@target', dict(requires_target=[fresh('self')], requires=[], assigns=[], ensures=ensures), {}, ['C06', 'C11', 'C18'], nparams,
                  target=dict(cls=r'^ffsm2::detail::R_<', name=name, nparams=nparams, **kw))
UNITS += [
    r_acc('previousTransition', 'previousTransition', [('C11', '__CPROVER_return_value == &%s.previousTransition' % RC)]),
    r_acc('context', 'context', [('C06', '__CPROVER_return_value == %s.context' % RC)], const=False),
]
UNITS += [
    r_unit('attachLogger', '@target', dict(requires_target=[fresh('self')], requires=[], assigns=[RC + '.logger'], ensures=[('C16', '%s.logger == {p0}' % RC)]), {}, ['C16', 'C18'], 1,
           target=dict(cls=r'^ffsm2::detail::R_<', name='attachLogger', nparams=1)),
]
