"""Shared vocabulary for the machine-level contracts: ghost state, control-object paths, the model of
"any user callback" (stub contracts closed under the control API), and generators for the per-layer
contracts S_ -> CS_ -> C_ -> R_.  See DESIGN.md section 3.

Ghost state (history variables; never read by lowered code, assigned only through stub contracts):
  g_clock            ticks once per delivery of a user callback and per logger record
  g_t[K][who]        clock value at which callback kind K was delivered to who (0 = root head, 1 = sub-state); 0 = not delivered
  g_st[K][who]       id of the state it was delivered to
  g_lt[K][who]       clock value of the logger's method record for that delivery (0 = none)
  g_entered, g_root_entered   enter/exit protocol state (C01)
  g_surv, g_has_surv, g_rounds   substitution loop: most recent pending transition the guards did not cancel
  g_pending          the request under guard evaluation (what guards must see as pendingTransition())
  g_event            the caller's event object (identity)
"""
from contracts.common import *

W = 'w_machine'
K = dict(ENTRY_GUARD=1, ENTER=2, REENTER=3, PRE_UPDATE=4, UPDATE=5, POST_UPDATE=6, PRE_REACT=7, REACT=8, QUERY=9, POST_REACT=10,
         EXIT_GUARD=11, EXIT=12, PLAN_SUCCEEDED=13, PLAN_FAILED=14)
BIG = '1000000u'
BOUND = {'R': '1000u', 'C': '10000u', 'CS': '20000u', 'S': '100000u', 'stub': '1000000u'}

GHOST = [
    'uint32_t g_clock;',
    'uint32_t g_t[16][2]; uint8_t g_st[16][2]; uint32_t g_lt[16][2];',
    'uint8_t g_entered; _Bool g_root_entered;',
    'struct TransitionT g_surv; _Bool g_has_surv; uint32_t g_rounds;',
    'struct TransitionT g_pending;',
    'struct Ev *g_event;',
    '#define WHO(st) ((st) != 255)',
]

N = 'ArgsT__STATE_COUNT'
RECS = {
    'R_': r'^ffsm2::detail::R_<', 'CoreT': r'^ffsm2::detail::CoreT<', 'TransitionT': r'^ffsm2::detail::TransitionT<int>$',
    'TransitionBase': r'^ffsm2::detail::TransitionBase$', 'Registry': r'^ffsm2::detail::Registry$', 'C_': r'^ffsm2::detail::C_<',
    'PlanControlT': r'^ffsm2::detail::PlanControlT<', 'ControlT': r'^ffsm2::detail::ControlT<', 'ConstControlT': r'^ffsm2::detail::ConstControlT<',
    'GuardControlT': r'^ffsm2::detail::GuardControlT<', 'FullControlT': r'^ffsm2::detail::FullControlT<', 'FullControlBaseT': r'^ffsm2::detail::FullControlBaseT<',
    'PlanDataT': r'^ffsm2::detail::PlanDataT<', 'ArgsT': r'^ffsm2::detail::ArgsT<', 'TL_': r'^ffsm2::detail::TL_<A,B,C',
    'LoggerInterfaceT': r'^ffsm2::LoggerInterfaceT<',
}
OPAQUE = [r'^ffsm2::detail::PlanDataT<', r'^Ctx$', r'LoggerInterfaceT<']
CONSTS = {'G__NSubstitutionLimit': ('range', 1, 255), 'TL___sizeof_Ts': ('range', 1, 255)}

# ---- paths from a control parameter to its sub-objects, by control flavour
CTL = {   # path to the ControlT sub-object / PlanControlT sub-object
    'Guard': dict(ctl='control->_b0._b0._b0._b0', plan='control->_b0._b0._b0', t='struct GuardControlT'),
    'Full': dict(ctl='control->_b0._b0._b0', plan='control->_b0._b0', t='struct FullControlT'),
    'Plan': dict(ctl='control->_b0', plan='(*control)', t='struct PlanControlT'),
    'Const': dict(ctl='(*control)', plan=None, t='struct ConstControlT'),
}
def core(flav):
    return '%s._core' % CTL[flav]['ctl']

# callback table: name -> (Method id, control flavour, has event, pre/post side)
CB = {
    'entryGuard': ('ENTRY_GUARD', 'Guard', False), 'enter': ('ENTER', 'Plan', False), 'reenter': ('REENTER', 'Plan', False),
    'preUpdate': ('PRE_UPDATE', 'Full', False), 'update': ('UPDATE', 'Full', False), 'postUpdate': ('POST_UPDATE', 'Full', False),
    'preReact': ('PRE_REACT', 'Full', True), 'react': ('REACT', 'Full', True), 'postReact': ('POST_REACT', 'Full', True),
    'query': ('QUERY', 'Const', True), 'exitGuard': ('EXIT_GUARD', 'Guard', False), 'exit': ('EXIT', 'Plan', False),
    'planSucceeded': ('PLAN_SUCCEEDED', 'Full', False), 'planFailed': ('PLAN_FAILED', 'Full', False),
}
DEEP = {'entryGuard': 'deepEntryGuard', 'enter': 'deepEnter', 'reenter': 'deepReenter', 'preUpdate': 'deepPreUpdate', 'update': 'deepUpdate',
        'postUpdate': 'deepPostUpdate', 'preReact': 'deepPreReact', 'react': 'deepReact', 'postReact': 'deepPostReact', 'query': 'deepQuery',
        'exitGuard': 'deepExitGuard', 'exit': 'deepExit', 'planSucceeded': 'wrapPlanSucceeded', 'planFailed': 'wrapPlanFailed'}

def t_eq(a, b):
    return ('(%s._b0.origin == %s._b0.origin && %s._b0.destination == %s._b0.destination && %s._b0.method == %s._b0.method && '
            '%s.payloadSet == %s.payloadSet && %s.storage[0] == %s.storage[0] && %s.storage[1] == %s.storage[1] && %s.storage[2] == %s.storage[2] && %s.storage[3] == %s.storage[3])'
            % ((a, b) * 8))
def t_default(a):
    return '(%s._b0.destination == 255 && %s._b0.origin == 255 && %s._b0.method == Method__NONE && !%s.payloadSet)' % (a, a, a, a)
def req_ok(a):
    return '(%s._b0.destination == 255 || %s._b0.destination < %s)' % (a, a, N)
def req_rel(new, old_, st):
    """closure of the request-making control API: unchanged, or a new request whose origin is the calling state"""
    return '(%s || (%s._b0.origin == %s && %s._b0.destination < %s && %s._b0.method == Method__NONE))' % (t_eq(new, old_), new, st, new, N, new)

def protocol_pre(cb, st, active):
    """C01: when may this lifecycle callback be delivered to state st"""
    if cb == 'enter':
        return '(%s == 255 ? (!g_root_entered && g_entered == 255) : (g_root_entered && g_entered == 255 && %s == %s))' % (st, active, st)
    if cb == 'exit':
        return '(%s == 255 ? (g_root_entered && g_entered == 255) : (g_root_entered && g_entered == %s && %s == %s))' % (st, st, active, st)
    if cb == 'reenter':
        return '(%s != 255 && g_root_entered && g_entered == %s && %s == %s)' % (st, st, active, st)
    return '1'
def protocol_post(cb, st):
    if cb == 'enter':
        return '(%s == 255 ? (g_root_entered && g_entered == 255) : (g_root_entered == __CPROVER_old(g_root_entered) && g_entered == %s))' % (st, st)
    if cb == 'exit':
        return '(%s == 255 ? (!g_root_entered && g_entered == 255) : (g_root_entered == __CPROVER_old(g_root_entered) && g_entered == 255))' % st
    return '(g_root_entered == __CPROVER_old(g_root_entered) && g_entered == __CPROVER_old(g_entered))'

def deliver(cb, st, flav, role, exact, layer='S'):
    """Clauses shared by the user-callback stub (role='stub') and by every layer's deep/wide function for callback cb
    delivered to state st.  exact=True: exactly one tick (the stub itself); False: at least one (wrappers with injections / logging)."""
    kid = K[CB[cb][0]]
    c = core(flav)
    who = 'WHO(%s)' % st
    req, ens, asg = [], [], []
    active = '%s->registry.active' % c
    guard = cb in ('entryGuard', 'exitGuard')
    life = cb in ('enter', 'exit', 'reenter')
    plan_cb = cb in ('planSucceeded', 'planFailed')
    req.append('g_clock < ' + BOUND['stub' if role == 'stub' else layer])
    if not guard:
        req.append('g_t[%d][%s] == 0' % (kid, who))
    # C05 / C01: only the root head and the active state are addressed
    if cb == 'entryGuard':
        req.append('(%s == 255 || %s->registry.requested == %s)' % (st, c, st))
    elif life:
        req.append(protocol_pre(cb, st, active))
    elif plan_cb:
        req.append('%s == 255' % st)
    else:
        req.append('(%s == 255 || %s == %s)' % (st, active, st))
    if CB[cb][2]:
        req.append('event == g_event')                                   # C05: the caller's own event object
    if guard:
        # C06 / C07: guards see the request under evaluation and the transition accepted so far
        req.append(t_eq('(*control->_pendingTransition)', 'g_pending'))
        req.append(implies('g_has_surv', t_eq('(*%s._currentTransition)' % CTL[flav]['plan'], 'g_surv')))
        req.append(implies('!g_has_surv', t_default('(*%s._currentTransition)' % CTL[flav]['plan'])))
    if cb in ('enter', 'reenter') :
        req.append(implies('%s != 255 && g_has_surv' % st, t_eq('(*%s._currentTransition)' % CTL[flav]['plan'], 'g_surv')))   # C07 / C11
    # frame
    asg += ['g_clock', 'g_t[%d][%s]' % (kid, who), 'g_st[%d][%s]' % (kid, who)]
    if flav != 'Const':
        asg.append('%s->planData' % c)
    if flav in ('Full', 'Guard'):
        asg += ['%s->request' % c, '%s._taskStatus' % CTL[flav]['plan']]
    if flav == 'Guard':
        asg.append('control->_cancelled')
    if life:
        asg += ['g_entered', 'g_root_entered']
    # effect
    if exact:
        ens.append('g_clock == __CPROVER_old(g_clock) + 1 && g_t[%d][%s] == g_clock' % (kid, who))
    else:
        ens.append('g_clock > __CPROVER_old(g_clock) && g_clock <= __CPROVER_old(g_clock) + 16 && g_t[%d][%s] > __CPROVER_old(g_clock) && g_t[%d][%s] <= g_clock' % (kid, who, kid, who))
    ens.append('g_st[%d][%s] == %s' % (kid, who, st))
    if flav in ('Full', 'Guard'):
        ens.append(req_rel('%s->request' % c, '__CPROVER_old(%s->request)' % c, st))
        ens.append(req_ok('%s->request' % c) if False else '1')
    if flav == 'Guard':
        ens.append('(control->_cancelled == __CPROVER_old(control->_cancelled) || control->_cancelled)')
    if life:
        ens.append(protocol_post(cb, st))
    return req, asg, ens

def stub_contract(cb, st):
    """contract of the user's callback cb of the state whose id is st: the model of arbitrary user code"""
    mid, flav, ev = CB[cb]
    req, asg, ens = deliver(cb, st, flav, 'stub', True)
    req = ['%s._originId == %s' % (CTL[flav]['ctl'], st)] + req      # C06: the control reports the state's own id
    return dict(requires=req, assigns=asg, ensures=ens)

# =============================================================================================
# logger stubs (C16): one record = one clock tick, remembered per (method, who)
def logger_contracts():
    return {
        # parameters are unnamed in the library (FFSM2_UNUSED): _unnamed0 = context, _unnamed1 = origin, _unnamed2 = method
        'LoggerInterfaceT__recordMethod': dict(
            requires=['g_clock < ' + BIG, '_unnamed2 < 16', 'g_lt[_unnamed2][WHO(_unnamed1)] == 0'],
            assigns=['g_clock', 'g_lt[_unnamed2][WHO(_unnamed1)]'],
            ensures=['g_clock == __CPROVER_old(g_clock) + 1', 'g_lt[_unnamed2][WHO(_unnamed1)] == g_clock']),
    }

# =============================================================================================
# S_ layer: every deep*/wrap* of a state with a real head, STATE_ID symbolic (0..254 sub-state, 255 root head)
ST = 'S___STATE_ID'
def s_contract(cb, st, for_layer='S_'):
    """contract of S_::deepX (also used, with st = prong / 255, for the callers' view of it)"""
    mid, flav, ev = CB[cb]
    kid = K[mid]
    req, asg, ens = deliver(cb, st, flav, 'wrapper', False)
    c = core(flav)
    who = 'WHO(%s)' % st
    req = list(req) + ['g_lt[%d][%s] == 0' % (kid, who)]
    asg = list(asg) + ['g_lt[%d][%s]' % (kid, who), '%s._originId' % CTL[flav]['ctl']]
    ens = list(ens)
    # C06: scoped origin restored afterwards
    ens.append('%s._originId == __CPROVER_old(%s._originId)' % (CTL[flav]['ctl'], CTL[flav]['ctl']))
    # C16: with a logger attached exactly one method record, emitted before the user code of this delivery; none without
    ens.append(implies('%s->logger != (void*)0' % c, 'g_lt[%d][%s] == __CPROVER_old(g_clock) + 1 && g_lt[%d][%s] < g_t[%d][%s]' % (kid, who, kid, who, kid, who)))
    ens.append(implies('%s->logger == (void*)0' % c, 'g_lt[%d][%s] == 0' % (kid, who)))
    if cb in ('entryGuard', 'exitGuard'):
        ens.append('__CPROVER_return_value == (!__CPROVER_old(control->_cancelled) && control->_cancelled)')     # C03: "newly cancelled"
    elif flav == 'Full' and cb not in ('planSucceeded', 'planFailed'):
        ens.append('__CPROVER_return_value.result == %s._taskStatus.result' % CTL[flav]['plan'])
    if cb == 'exit':
        pass
    rt = [fresh('self'), fresh('control'), fresh(c, '*' + c),
          '(%s->logger == (void*)0 || __CPROVER_is_fresh(%s->logger, sizeof(*%s->logger)))' % (c, c, c),
          '%s->context == (void*)0 || __CPROVER_is_fresh(%s->context, sizeof(*%s->context))' % (c, c, c)]
    if flav in ('Guard', 'Full', 'Plan'):
        pl = CTL[flav]['plan']
        rt.append(fresh('%s._currentTransition' % pl, '*%s._currentTransition' % pl))
    if flav == 'Guard':
        rt.append(fresh('control->_pendingTransition', '*control->_pendingTransition'))
    if ev:
        rt.append(fresh('event'))
    return dict(requires=req, requires_target=rt, assigns=asg, ensures=ens)

S_RECS = dict(RECS); S_RECS.update({'S_': r'^ffsm2::detail::S_<0,.*,A>$', 'A_': r'^ffsm2::detail::A_<ffsm2::detail::B_<', 'B_': r'^ffsm2::detail::B_<'})
S_CONSTS = dict(CONSTS); S_CONSTS['S___NStateId'] = ('range', 0, 255)
# structural fact: the id of a sub-state is below the state count (carried by the CS_ split contracts, C14); 255 is the root head
S_CONSTS['__assume__'] = ['S___STATE_ID == 255 || S___STATE_ID < ArgsT__STATE_COUNT']
S_CALLS = {'re:^LoggerInterfaceT__': 'contract', 'PlanDataT__clearTaskStatus': 'contract'}
CLEAR_STATUS = {'PlanDataT__clearTaskStatus': dict(requires=['stateId == 255 || stateId < ' + N], assigns=['*self'], ensures=[])}

def s_unit(cb, head='A', tag=None, props=None):
    mid, flav, ev = CB[cb]
    fn = DEEP[cb]
    tname = 'S___%s' % fn + ('__Ev' if ev else '')
    contracts = {tname: s_contract(cb, ST)}
    contracts['%s__%s' % (head, cb)] = stub_contract(cb, ST)
    contracts.update(logger_contracts())
    if cb == 'exit':
        contracts.update(CLEAR_STATUS)
    recs = dict(S_RECS)
    if head != 'A':
        recs['S_'] = r'^ffsm2::detail::S_<255,.*,%s>$' % head
    u = dict(id='structure.S_.%s%s' % (fn, '' if head == 'A' else '.' + head), witness=W, recs=recs, opaque=OPAQUE,
             props=props or ['C01', 'C05', 'C06', 'C16', 'C18'] + (['C03'] if 'Guard' in fn else []),
             target=dict(cls=recs['S_'], name=fn, nparams=2 if ev else 1),
             consts=S_CONSTS, need_consts=['ArgsT.STATE_COUNT'], ghost=GHOST, calls=S_CALLS, contracts=contracts)
    return u

UNITS = [s_unit(cb) for cb in ('entryGuard', 'enter', 'reenter', 'preUpdate', 'update', 'postUpdate', 'preReact', 'react', 'postReact', 'query', 'exitGuard', 'exit')]
