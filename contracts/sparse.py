"""States that define only some callbacks (witness/w_sparse.cpp): the other half of the case split "does this state
define this callback".

For every state X of the sparse witness and every callback kind cb the unit is S_<id, Args, X>::deepCb / wrapCb:
  * X defines cb      -> the S_ contract of contracts/machine.py (delivery exactly once, method record first) with X's
                         callback as the user-code stub;
  * X does not        -> no user code runs: neither the delivery marks nor the request / plan / cancel flag are in the
                         frame; guards report "not cancelled"; with verbose logging exactly one method record naming that
                         state and method, without it at most one (see s_undef_contract).
The state id is symbolic as in the structure.S_ units; one instantiation per (state type, callback)."""
from contracts.common import *
from contracts.machine import *

WSP = 'w_sparse'
STATES = {   # state type -> the one callback it defines (None: nothing)
    'Bare': None, 'OEntryGuard': 'entryGuard', 'OEnter': 'enter', 'OReenter': 'reenter', 'OPreUpdate': 'preUpdate', 'OUpdate': 'update',
    'OPostUpdate': 'postUpdate', 'OPreReact': 'preReact', 'OReact': 'react', 'OPostReact': 'postReact', 'OQuery': 'query',
    'OExitGuard': 'exitGuard', 'OExit': 'exit',
}
CBS12 = ('entryGuard', 'enter', 'reenter', 'preUpdate', 'update', 'postUpdate', 'preReact', 'react', 'postReact', 'query', 'exitGuard', 'exit')
GH_L = ['uint8_t g_lm, g_ls;   /* method and state named by the last method record */']
LOG_REC = {'LoggerInterfaceT__recordMethod': dict(
    requires=['g_clock < ' + BIG + ' * 2', '_unnamed2 < 16', '(_unnamed2 == 1 || _unnamed2 == 11 || g_lt[_unnamed2][WHO(_unnamed1)] == 0)'],
    assigns=['g_clock', 'g_lt[_unnamed2][WHO(_unnamed1)]', 'g_lm', 'g_ls'],
    ensures=['g_clock == __CPROVER_old(g_clock) + 1', 'g_lt[_unnamed2][WHO(_unnamed1)] == g_clock', 'g_lm == _unnamed2 && g_ls == _unnamed1'], optional=True)}


def s_undef_contract(cb, verbose):
    """S_::deepCb for a state that does not define cb"""
    mid, flav, ev = CB[cb]
    kid = K[mid]
    c = core(flav)
    who = 'WHO(%s)' % ST
    ctl = CTL[flav]['ctl']
    asg = ['%s._originId' % ctl]
    req = ['g_clock < ' + BOUND['S']]
    ens = [('C06', '%s._originId == __CPROVER_old(%s._originId)' % (ctl, ctl))]
    req.append('g_lt[%d][%s] == 0' % (kid, who))
    asg += ['g_clock', 'g_lt[%d][%s]' % (kid, who), 'g_lm', 'g_ls']
    rec = 'g_lt[%d][%s] == __CPROVER_old(g_clock) + 1 && g_clock == __CPROVER_old(g_clock) + 1 && g_lm == %d && g_ls == %s' % (kid, who, kid, ST)
    if verbose:
        # verbose logging additionally records deliveries to states that define no callback: exactly one record
        ens.append(('C16', implies('%s->logger != (void*)0' % c, rec)))
    else:
        # C16 asks for a record where the class defines the callback and that every record corresponds to a delivery to that
        # state at that moment; it does not say that there is none for a state without the callback (the library emits one
        # for the event callbacks preReact/react/postReact/query, whose member pointer is cast to Head::*, and none for the
        # others): at most one record, naming this state and this method
        ens.append(('C16', implies('%s->logger != (void*)0' % c, '(g_clock == __CPROVER_old(g_clock) || (%s))' % rec)))
    ens.append(('C16', implies('%s->logger == (void*)0' % c, 'g_clock == __CPROVER_old(g_clock)')))
    # (the delivery marks g_t stay out of the frame: no user code runs)
    if cb == 'exit':
        asg.append('%s->planData' % c)
    if cb in ('entryGuard', 'exitGuard'):
        ens.append(('C03', '__CPROVER_return_value == 0'))
    elif flav == 'Full' and cb not in ('planSucceeded', 'planFailed'):
        ens.append(('C05', '__CPROVER_return_value.result == %s._taskStatus.result' % CTL[flav]['plan']))
    rt = [fresh('self'), fresh('control'), fresh(c, '*' + c), '(%s->logger == (void*)0 || __CPROVER_is_fresh(%s->logger, sizeof(*%s->logger)))' % (c, c, c),
          '%s->context == (void*)0 || __CPROVER_is_fresh(%s->context, sizeof(*%s->context))' % (c, c, c)]
    if flav in ('Guard', 'Full', 'Plan'):
        pl = CTL[flav]['plan']
        rt.append(fresh('%s._currentTransition' % pl, '*%s._currentTransition' % pl))
    if flav == 'Guard':
        rt.append(fresh('control->_pendingTransition', '*control->_pendingTransition'))
    if ev:
        rt.append('{fresh:{p-1}}')
    return dict(requires_target=rt, requires=req, assigns=asg, ensures=ens)


def sparse_unit(state, cb, verbose, head=False):
    mid, flav, ev = CB[cb]
    fn = DEEP[cb]
    defined = (STATES.get(state) == cb) if not head else (HEADS[state] == cb)
    tname = 'S___%s' % fn + ('__Ev' if ev else '')
    recs = dict(S_RECS)
    recs['S_'] = (r'^ffsm2::detail::S_<255,.*,%s>$' % state) if head else (r'^ffsm2::detail::S_<\d+,.*,%s>$' % state)
    recs['TL_'] = r'^ffsm2::detail::TL_<Bare,'
    if defined:
        tc = s_contract(cb, ST)
        tc = dict(tc, assigns=tc['assigns'] + ['g_lm', 'g_ls'])
        contracts = {tname: tc, '%s__%s' % (state, cb): dict(stub_contract(cb, ST), optional=True)}
    else:
        contracts = {tname: s_undef_contract(cb, verbose)}
    contracts.update(LOG_REC)
    if cb == 'exit':
        contracts.update(CLEAR_STATUS)
        contracts[tname] = exit_clears(contracts[tname])
    wd = (['W_HEAD=' + state] if head else ([] if state == 'Bare' else ['W_STATE=' + state])) + (['W_VERBOSE'] if verbose else [])
    return dict(id='sparse.%s%s.%s' % (state, '.verbose' if verbose else '', fn), witness=WSP, witness_defines=wd,
                recs=recs, opaque=OPAQUE, props=['C16', 'C05', 'C01', 'C18'] + (['C03'] if 'Guard' in fn else []) + (['C09'] if 'Plan' in fn else []),
                target=dict(cls=recs['S_'], name=fn, nparams=2 if ev else 1), consts=S_CONSTS, need_consts=['ArgsT.STATE_COUNT'],
                ghost=GHOST + GH_L, calls=S_CALLS, contracts=contracts)


HEADS = {'R0': 'planFailed', 'R1': 'planSucceeded'}
# Bare is checked against all twelve callbacks; a state that defines one callback against that callback and its look-alikes
# (the members a slip would confuse it with); the heads against both plan outcome callbacks.
GROUPS = [('enter', 'reenter', 'exit'), ('entryGuard', 'exitGuard'), ('preUpdate', 'update', 'postUpdate'), ('preReact', 'react', 'postReact', 'query')]
UNITS = []
for verbose in (False, True):
    for cb in CBS12:
        UNITS.append(sparse_unit('Bare', cb, verbose))
    for st, own in STATES.items():
        if own is None:
            continue
        for cb in [g for g in GROUPS if own in g][0]:
            UNITS.append(sparse_unit(st, cb, verbose))
    for hd in HEADS:
        for cb in ('planSucceeded', 'planFailed'):
            UNITS.append(sparse_unit(hd, cb, verbose, head=True))
