"""C12: serialization round-trips the activity state and is canonical."""
from contracts.common import *
from contracts.machine import *

WS = 'w_serial'
SE_RECS = {
    'RV_M': r'^ffsm2::detail::RV_<ffsm2::detail::G_<\d+,Ctx&,ffsm2::Manual', 'RV_A': r'^ffsm2::detail::RV_<ffsm2::detail::G_<\d+,Ctx&,ffsm2::Automatic',
    'R_M': r'^ffsm2::detail::R_<ffsm2::detail::G_<\d+,Ctx&,ffsm2::Manual', 'R_A': r'^ffsm2::detail::R_<ffsm2::detail::G_<\d+,Ctx&,ffsm2::Automatic',
    'CoreT': r'^ffsm2::detail::CoreT<.*Manual', 'CoreT_A': r'^ffsm2::detail::CoreT<.*Automatic', 'TransitionT': r'^ffsm2::detail::TransitionT<void>$', 'TransitionBase': r'^ffsm2::detail::TransitionBase$',
    'Registry': r'^ffsm2::detail::Registry$', 'C_': r'^ffsm2::detail::C_<.*Manual', 'C_A': r'^ffsm2::detail::C_<.*Automatic',
    'PlanControlT': r'^ffsm2::detail::PlanControlT<.*Manual', 'ControlT': r'^ffsm2::detail::ControlT<.*Manual', 'PlanDataT': r'^ffsm2::detail::PlanDataT<.*Manual',
    'BitWriteStreamT': r'^ffsm2::detail::BitWriteStreamT<', 'BitReadStreamT': r'^ffsm2::detail::BitReadStreamT<', 'StreamBufferT': r'^ffsm2::detail::StreamBufferT<',
    'ArgsT': r'^ffsm2::detail::ArgsT<.*Manual', 'RF_': r'^ffsm2::detail::RF_<.*Manual',
    'TL_': r'^ffsm2::detail::TL_<W<ffsm2::detail::G_<\d+,Ctx&,ffsm2::Manual.*::A,',
}
DCONSTS = {'StreamBufferT__NBitCapacity': ('range', 2, 9), 'BitWriteStreamT__NBitCapacity': ('expr', 'StreamBufferT__NBitCapacity'), 'BitReadStreamT__NBitCapacity': ('expr', 'StreamBufferT__NBitCapacity'),
           'G__NSubstitutionLimit': ('range', 1, 255), 'TL___sizeof_Ts': ('range', 1, 255)}
UNITS = []
WB = 'C___WIDTH_BITS'
NS_ = 'C___WIDTH'                      # number of sub-states of the root region = state count
BITCAP = 'StreamBufferT__BIT_CAPACITY'
SE_CONSTS = {'CI__sizeof_TSubStates': ('range', 1, 255), 'G__NSubstitutionLimit': ('range', 1, 255), 'TL___sizeof_Ts': ('expr', 'CI__sizeof_TSubStates'),
             # the serial buffer is declared as StreamBufferT<ArgsT::SERIAL_BITS>, ArgsT is instantiated with RF_::SERIAL_BITS; the value of
             # RF_::SERIAL_BITS is *lowered from the code* (1 + Apex::ACTIVE_BITS = 1 + bitWidth(state count)), not restated here, so a
             # buffer too small for what save() writes fails write()'s precondition.  The two alias facts are checked natively on the witness.
             'StreamBufferT__NBitCapacity': ('expr', 'ArgsT__SERIAL_BITS'), 'ArgsT__NSerialBits': ('expr', 'RF___SERIAL_BITS'), 'BitWriteStreamT__NBitCapacity': ('expr', 'StreamBufferT__NBitCapacity'),
             'BitReadStreamT__NBitCapacity': ('expr', 'StreamBufferT__NBitCapacity')}
SE_GHOST = ['uint8_t g_q;   /* arbitrary bit index of the buffer */',
            '/* expected bit q of the canonical encoding of (activity, active state) */',
            '#define ENC_BIT(act, st, q) ((q) == 0 ? ((act) ? 1u : 0u) : (((act) && (q) <= %s) ? (((unsigned)(st) >> ((q) - 1)) & 1u) : 0u))' % WB,
            '#define BUF_BIT(data, q) ((((data))[(q) >> 3] >> ((q) & 7)) & 1u)']
SE_OPAQUE = [r'^ffsm2::detail::PlanDataT<', r'^Ctx$', r'LoggerInterfaceT<', r'^ffsm2::detail::S_<', r'^ffsm2::detail::CS_<']
# BitWriteStreamT::write<W> as proved in contracts/c13.py (all widths / cursors / items), stated for the ghost bit g_q
def write_contract(width):
    D = 'self->_buffer->_data'
    return dict(requires=['(int)self->_cursor + (int)(%s) <= (int)%s' % (width, BITCAP), '((unsigned)item >> (%s)) == 0' % width, 'g_q < ' + BITCAP,
                          implies('g_q >= self->_cursor', 'BUF_BIT(%s, g_q) == 0' % D)],
                assigns=['self->_cursor', '*self->_buffer'],
                ensures=['self->_cursor == __CPROVER_old(self->_cursor) + (%s)' % width,
                         implies('g_q < __CPROVER_old(self->_cursor)', 'BUF_BIT(%s, g_q) == ((__CPROVER_old(self->_buffer->_data[g_q >> 3]) >> (g_q & 7)) & 1u)' % D),
                         implies('g_q >= __CPROVER_old(self->_cursor) && g_q < self->_cursor', 'BUF_BIT(%s, g_q) == (((unsigned)item >> (g_q - __CPROVER_old(self->_cursor))) & 1u)' % D),
                         implies('g_q >= self->_cursor', 'BUF_BIT(%s, g_q) == 0' % D)])
def se_unit(id_, cls, name, nparams, contracts, calls, props=None, **kw):
    u = dict(id='serial.' + id_, witness=WS, recs=SE_RECS, opaque=SE_OPAQUE, props=props or ['C12', 'C18'], target=dict(cls=cls, name=name, nparams=nparams),
             consts=SE_CONSTS, ghost=SE_GHOST, array_max={'StreamBufferT._data': 2}, need_consts=['RF_.SERIAL_BITS', 'ArgsT.SERIAL_BITS', 'C_.WIDTH_BITS', 'C_.WIDTH', 'StreamBufferT.BIT_CAPACITY'],
             calls=calls, contracts=contracts)
    u.update(kw)
    return u
STREAM_OK = ['g_q < ' + BITCAP, 'stream->_cursor == 1', implies('g_q >= 1', 'BUF_BIT(stream->_buffer->_data, g_q) == 0')]
SAVE_ACTIVE = dict(
    requires_target=[fresh('self'), fresh('registry'), fresh('stream'), fresh('stream->_buffer', '*stream->_buffer')],
    requires=STREAM_OK + ['registry->active < ' + NS_],
    assigns=['stream->_cursor', '*stream->_buffer'],
    ensures=[('C12', 'stream->_cursor == 1 + ' + WB),
             ('C12', implies('g_q >= 1', 'BUF_BIT(stream->_buffer->_data, g_q) == ENC_BIT(1, registry->active, g_q)')),
             ('C12', implies('g_q == 0', 'BUF_BIT(stream->_buffer->_data, 0) == ((__CPROVER_old(stream->_buffer->_data[0])) & 1u)'))])
UNITS += [
    se_unit('C_.deepSaveActive', SE_RECS['C_'], 'deepSaveActive', 2, {'C___deepSaveActive': SAVE_ACTIVE, 'BitWriteStreamT__write': write_contract(WB)},
            {'BitWriteStreamT__write': 'contract'}, consts=dict(SE_CONSTS, BitWriteStreamT__write__NBitWidth=('expr', 'C___WIDTH_BITS'))),
]

RCM = 'self->_core'
RVC = 'self->_b0._core'
R_SAVE = dict(
    requires_target=[fresh('self'), fresh('stream'), fresh('stream->_buffer', '*stream->_buffer')],
    requires=STREAM_OK + ['%s.registry.active < %s' % (RCM, NS_)],
    assigns=['stream->_cursor', '*stream->_buffer'],          # C12: save() does not modify the machine
    ensures=[('C12', 'stream->_cursor == 1 + ' + WB),
             ('C12', implies('g_q >= 1', 'BUF_BIT(stream->_buffer->_data, g_q) == ENC_BIT(1, %s.registry.active, g_q)' % RCM)),
             ('C12', implies('g_q == 0', 'BUF_BIT(stream->_buffer->_data, 0) == ((__CPROVER_old(stream->_buffer->_data[0])) & 1u)'))])
WS_CTOR = dict(requires=[], assigns=['*self', '*buffer'], ensures=['self->_buffer == buffer && self->_cursor == cursor', 'BUF_BIT(buffer->_data, g_q) == 0'])
def rv_save(activity, active):
    return dict(
        requires_target=[fresh('self'), fresh('buffer')],
        requires=['g_q < ' + BITCAP, '(%s.registry.active == 255 || %s.registry.active < %s)' % (RVC, RVC, NS_)],
        assigns=['*buffer'],                                     # nothing of *self: save() does not modify the machine
        # canonical: every bit of the buffer is the encoding of (activity, active state) -- bits beyond are zero
        ensures=[('C12', 'BUF_BIT(buffer->_data, g_q) == ENC_BIT(%s, %s, g_q)' % (activity, active))])
UNITS += [
    se_unit('R_.save', SE_RECS['R_M'], 'save', 1, {'R_M__save': R_SAVE, 'C___deepSaveActive': SAVE_ACTIVE}, {'C___deepSaveActive': 'contract'}),
    se_unit('RV_Manual.save', SE_RECS['RV_M'], 'save', 1,
            {'RV_M__save': rv_save('(%s.registry.active != 255)' % RVC, RVC + '.registry.active'), 'R_M__save': R_SAVE, 'BitWriteStreamT__write': write_contract('1'), 'BitWriteStreamT__ctor2': WS_CTOR},
            {'R_M__save': 'contract', 'BitWriteStreamT__write': 'contract', 'BitWriteStreamT__ctor2': 'contract'},
            consts=dict(SE_CONSTS, BitWriteStreamT__write__NBitWidth=('value', 1))),
]

# the same functions for automatic activation: same aliases, the Automatic records
SE_RECS_A = dict(SE_RECS)
for k_, v_ in list(SE_RECS.items()):
    if 'Manual' in v_:
        SE_RECS_A[k_] = v_.replace('Manual', 'Automatic')
for k_ in ('RV_A', 'R_A', 'CoreT_A', 'C_A'):
    SE_RECS_A.pop(k_, None)
UNITS += [
    se_unit('RV_Automatic.save', SE_RECS_A['RV_M'], 'save', 1,
            {'RV_M__save': rv_save('1', RVC + '.registry.active'), 'R_M__save': R_SAVE, 'BitWriteStreamT__write': write_contract('1'), 'BitWriteStreamT__ctor2': WS_CTOR},
            {'R_M__save': 'contract', 'BitWriteStreamT__write': 'contract', 'BitWriteStreamT__ctor2': 'contract'}, recs=SE_RECS_A),
]
UNITS[-1]['contracts']['RV_M__save']['requires'] = ['g_q < ' + BITCAP, '%s.registry.active < %s' % (RVC, NS_)]      # an automatic machine is always active

# ---- load side
# BitReadStreamT::read<W> as proved in contracts/c13.py, instantiated at the (at most 8) result bits
def read_contract(width):
    D = 'self->_buffer->_data'
    ens = ['self->_cursor == __CPROVER_old(self->_cursor) + (%s)' % width, '((unsigned)__CPROVER_return_value >> (%s)) == 0' % width]
    for j in range(8):
        ens.append(implies('%d < (%s)' % (j, width), '(((unsigned)__CPROVER_return_value >> %d) & 1u) == BUF_BIT(%s, __CPROVER_old(self->_cursor) + %d)' % (j, D, j)))
    return dict(requires=['(int)self->_cursor + (int)(%s) <= (int)%s' % (width, BITCAP)], assigns=['self->_cursor'], ensures=ens)
GD = ['uint8_t g_d;   /* the state the buffer encodes */']
def buf_encodes(data, act, st):
    """the first 1 + WIDTH_BITS bits of the buffer are the canonical encoding (instances q = 0..8 of save's postcondition)"""
    return ['BUF_BIT(%s, %d) == ENC_BIT(%s, %s, %d)' % (data, q, act, st, q) for q in range(9)]
LOAD_REQ = dict(
    requires_target=[fresh('self'), fresh('registry'), fresh('stream'), fresh('stream->_buffer', '*stream->_buffer')],
    requires=['stream->_cursor == 1', 'g_d < ' + NS_] + buf_encodes('stream->_buffer->_data', 1, 'g_d'),
    assigns=['registry->requested', 'stream->_cursor'],
    ensures=[('C12', 'registry->requested == g_d'), 'stream->_cursor == 1 + ' + WB])
UNITS += [
    se_unit('C_.deepLoadRequested', SE_RECS['C_'], 'deepLoadRequested', 2, {'C___deepLoadRequested': LOAD_REQ, 'BitReadStreamT__read': read_contract(WB)},
            {'BitReadStreamT__read': 'contract'}, ghost=SE_GHOST + GD),
]

# C_ lifecycle contracts (proved in structure.C_.* on the payload witness; the code is the same template text) restated
# for the payload-free instantiation: clauses about the surviving transition's payload do not apply
def no_payload(c):
    keep = lambda x: 'g_surv' not in (x[1] if isinstance(x, tuple) else x) and 'storage' not in (x[1] if isinstance(x, tuple) else x)
    out = dict(c)
    for k in ('requires', 'ensures'):
        out[k] = [x for x in c.get(k, []) if keep(x)]
    out['requires_target'] = []
    return out
C_ENTER_S, C_EXIT_S, C_CHANGE_S = no_payload(C_ENTER), no_payload(C_EXIT), no_payload(C_CHANGE)
LGHOST = SE_GHOST + GD + [g for g in GHOST if 'TransitionT' not in g]
LIFE_M = marks(LIFE1, (1,))
SERIAL_KEEP = {'PlanDataT': ['planExists']}
R_LOAD = dict(
    requires_target=[fresh('self'), fresh('stream'), fresh('stream->_buffer', '*stream->_buffer')],
    requires=['g_clock < ' + BOUND['R'], 'stream->_cursor == 1', 'g_d < ' + NS_, NS_ + ' == ' + N] + buf_encodes('stream->_buffer->_data', 1, 'g_d')
             + ['%s.registry.active < %s' % (RCM, N), 'g_root_entered && g_entered == %s.registry.active' % RCM] + zero(LIFE1, (1,)),
    # no guard is consulted: no guard mark is in the frame
    assigns=['__CPROVER_object_whole(self)', 'stream->_cursor', 'g_clock', 'g_entered', 'g_root_entered'] + LIFE_M,
    # (load() also clears the outstanding request and the plan data; C12 does not ask for that, so it is not demanded here)
    ensures=[('C12', '%s.registry.active == g_d' % RCM), ('C12', 'g_root_entered && g_entered == g_d')]
            + [('C12', x) for x in life_effect('__CPROVER_old(%s.registry.active)' % RCM, 'g_d')])
LOAD_ENTER = dict(
    requires_target=[fresh('self'), fresh('stream'), fresh('stream->_buffer', '*stream->_buffer')],
    requires=['g_clock < ' + BOUND['R'], 'stream->_cursor == 1', 'g_d < ' + NS_, NS_ + ' == ' + N] + buf_encodes('stream->_buffer->_data', 1, 'g_d')
             + ['%s.registry.active == 255' % RVC, '!g_root_entered && g_entered == 255'] + zero([K['ENTER']]),
    assigns=['__CPROVER_object_whole(self)', 'stream->_cursor', 'g_clock', 'g_entered', 'g_root_entered'] + marks([K['ENTER']]),
    ensures=[('C12', '%s.registry.active == g_d && %s.registry.requested == 255' % (RVC, RVC)), ('C12', 'g_root_entered && g_entered == g_d'),
             ('C12', '__CPROVER_old(g_clock) < %s && %s < %s && %s <= g_clock && g_st[2][0] == 255 && g_st[2][1] == g_d' % (tk(2, 0), tk(2, 0), tk(2, 1), tk(2, 1)))])
def l_unit(id_, cls, name, nparams, contracts, calls, **kw):
    kw.setdefault('ghost', LGHOST)
    return se_unit(id_, cls, name, nparams, contracts, dict({'re:^C___': 'contract'}, **calls), opaque=SE_OPAQUE + [r'^ffsm2::detail::C_<'], opaque_keep=SERIAL_KEEP,
                   need_consts=['RF_.SERIAL_BITS', 'ArgsT.SERIAL_BITS', 'C_.WIDTH_BITS', 'C_.WIDTH', 'StreamBufferT.BIT_CAPACITY', 'ArgsT.STATE_COUNT'], **kw)
UNITS += [
    l_unit('R_.load', SE_RECS['R_M'], 'load', 1, dict({'R_M__load': R_LOAD, 'C___deepLoadRequested': LOAD_REQ, 'C___deepChangeToRequested': C_CHANGE_S}, **PLANDATA_CLEAR),
           {'PlanDataT__clear': 'contract'}, props=['C12', 'C01', 'C03', 'C18']),
    l_unit('RV_Manual.loadEnter', SE_RECS['RV_M'], 'loadEnter', 1, {'RV_M__loadEnter': LOAD_ENTER, 'C___deepLoadRequested': LOAD_REQ, 'C___deepEnter': C_ENTER_S}, {}, props=['C12', 'C01', 'C03', 'C18']),
]

RS_CTOR = dict(requires=[], assigns=['*self'], ensures=['self->_buffer == buffer && self->_cursor == cursor'])
R_FE_S = no_payload(dict(R_FE, requires=[x for x in R_FE['requires']], ensures=[x for x in R_FE['ensures'] if 'previousTransition' not in (x[1] if isinstance(x, tuple) else x)]))
ACT_M = RVC + '.registry.active'
GS = ['_Bool g_sact;  /* activity the buffer encodes */']
RV_LOAD_M = dict(
    requires_target=[fresh('self'), fresh('buffer')],
    requires=['g_clock < 100u', 'g_d < ' + NS_, NS_ + ' == ' + N] + buf_encodes('buffer->_data', 'g_sact', 'g_d')
             + ['(%s == 255 ? (!g_root_entered && g_entered == 255) : (%s < %s && g_root_entered && g_entered == %s))' % (ACT_M, ACT_M, N, ACT_M), RVC + '.registry.requested == 255',
                RVC + '.request._b0.destination == 255'] + zero([K['ENTER'], K['EXIT']]) + zero([K['REENTER']], (1,)),
    assigns=['__CPROVER_object_whole(self)', 'g_clock', 'g_entered', 'g_root_entered'] + marks([K['ENTER'], K['EXIT']]) + marks([K['REENTER']], (1,)),
    ensures=[# the loader ends with the saver's activity, whatever its own state was
             ('C12', '%s == (g_sact ? g_d : 255)' % ACT_M),
             ('C12', '(g_sact ? (g_root_entered && g_entered == g_d) : (!g_root_entered && g_entered == 255))'),
             # exactly the exit/enter, reenter, final exit or initial enter needed
             ('C12', implies('g_sact && __CPROVER_old(%s) != 255 && __CPROVER_old(%s) != g_d' % (ACT_M, ACT_M), '%s && %s < %s && %s == 0 && g_t[2][0] == 0 && g_t[12][0] == 0' % (ticked(12, 1), tk(12, 1), tk(2, 1), tk(3, 1)))),
             ('C12', implies('g_sact && __CPROVER_old(%s) == g_d' % ACT_M, '%s && %s == 0 && %s == 0 && g_t[2][0] == 0 && g_t[12][0] == 0' % (ticked(3, 1), tk(2, 1), tk(12, 1)))),
             ('C12', implies('g_sact && __CPROVER_old(%s) == 255' % ACT_M, '%s && %s < %s && %s == 0 && %s == 0' % (ticked(2, 0), tk(2, 0), tk(2, 1), tk(12, 1), tk(3, 1)))),
             ('C12', implies('!g_sact && __CPROVER_old(%s) != 255' % ACT_M, '%s && %s < %s && %s == 0 && %s == 0' % (ticked(12, 1), tk(12, 1), tk(12, 0), tk(2, 1), tk(3, 1)))),
             ('C12', implies('!g_sact && __CPROVER_old(%s) == 255' % ACT_M, 'g_clock == __CPROVER_old(g_clock)'))])
READ1 = read_contract('1')
UNITS += [
    l_unit('RV_Manual.load', SE_RECS['RV_M'], 'load', 1,
           {'RV_M__load': RV_LOAD_M, 'R_M__load': R_LOAD, 'RV_M__loadEnter': LOAD_ENTER, 'R_M__finalExit': R_FE_S, 'BitReadStreamT__read': READ1, 'BitReadStreamT__ctor2': RS_CTOR},
           {'R_M__load': 'contract', 'RV_M__loadEnter': 'contract', 'R_M__finalExit': 'contract', 'BitReadStreamT__read': 'contract', 'BitReadStreamT__ctor2': 'contract'},
           props=['C12', 'C01', 'C03', 'C18'], ghost=LGHOST + GS),
]

RV_LOAD_A = dict(
    requires_target=[fresh('self'), fresh('buffer')],
    requires=['g_clock < 100u', 'g_d < ' + NS_, NS_ + ' == ' + N] + buf_encodes('buffer->_data', '1', 'g_d')
             + ['%s < %s && g_root_entered && g_entered == %s' % (ACT_M, N, ACT_M), RVC + '.registry.requested == 255'] + zero(LIFE1, (1,)),
    assigns=['__CPROVER_object_whole(self)', 'g_clock', 'g_entered', 'g_root_entered'] + LIFE_M,
    ensures=[('C12', '%s == g_d && g_root_entered && g_entered == g_d' % ACT_M)] + [('C12', x) for x in life_effect('__CPROVER_old(%s)' % ACT_M, 'g_d')])
UNITS += [
    l_unit('RV_Automatic.load', SE_RECS_A['RV_M'], 'load', 1,
           {'RV_M__load': RV_LOAD_A, 'R_M__load': R_LOAD, 'BitReadStreamT__read': READ1, 'BitReadStreamT__ctor2': RS_CTOR},
           {'R_M__load': 'contract', 'BitReadStreamT__read': 'contract', 'BitReadStreamT__ctor2': 'contract'}, props=['C12', 'C01', 'C03', 'C18'], recs=SE_RECS_A),
    # two machines produce equal buffers iff their activity states are equal: consequence of the canonical form (save's postcondition)
    # and of bitWidth's contract -- lemma over the contracts, no library code involved
    dict(id='serial.lemma.canonical', witness=WS, recs=SE_RECS, opaque=SE_OPAQUE, props=['C12'], target=dict(ghost='lemma_canonical'),
         consts=SE_CONSTS, ghost=SE_GHOST, need_consts=['RF_.SERIAL_BITS', 'ArgsT.SERIAL_BITS', 'C_.WIDTH_BITS', 'C_.WIDTH'], also=[],
         ghost_fns={'lemma_canonical': dict(
             sig='void lemma_canonical(_Bool act1, uint8_t st1, _Bool act2, uint8_t st2)',
             body='{\n\t_Bool same = 1;\n\tfor (unsigned q = 0; q < 9; ++q) if (ENC_BIT(act1, st1, q) != ENC_BIT(act2, st2, q)) same = 0;\n'
                  '\t__CPROVER_assert(same == ((!act1 == !act2) && (!act1 || st1 == st2)), "equal encodings iff equal activity states");\n}\n')},
         contracts={'lemma_canonical': dict(requires=['st1 < %s && st2 < %s' % (NS_, NS_)], assigns=[], ensures=[])},
         unwindset={'lemma_canonical.0': 10}, unwind_target_loops={0: 10}),
]
