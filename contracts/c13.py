"""C13  Bit stream: reads return exactly what was written, packed back to back.

Buffer model: bit k of the stream = bit (k & 7) of _data[k >> 3] (least significant bit first).  One
arbitrary ghost bit index g_q stands for "all bits".  BIT_CAPACITY (1..255), the field width
NBitWidth, the cursor and the item are symbolic over their full ranges; the three Item types
(uint8_t / uint16_t / uint32_t selected by UBitWidth<N>) are lowered and verified separately.
The chunk loops run at most ceil(32/8)+1 = 5 times: they are unwound 6 times with unwinding
assertions, which is complete for every field width (not a bound on the property)."""
from contracts.common import *

W = 'w_containers'
DATA = 'self->_buffer->_data'
QB = bit(DATA, 'g_q')
OLDQB = '((__CPROVER_old(self->_buffer->_data[g_q >> 3]) >> (g_q & 7)) & 1u)'

def ws(id_, item_bits, lo, hi, wit_width):
    fn = 'BitWriteStreamT__write'
    itype = {8: 'uint8_t', 16: 'uint16_t', 32: 'uint32_t'}[item_bits]
    fits = 'item <= 0xFFFFFFFFu' if False else ('(BitWriteStreamT__write__NBitWidth == %d || ((uint32_t)item >> BitWriteStreamT__write__NBitWidth) == 0)' % item_bits)
    return dict(
        id='c13.write.' + id_, witness=W, props=['C13', 'C18'],
        target=dict(cls=r'BitWriteStreamT<\d+>$', name='write', nparams=1, targs='^%d$' % wit_width),
        recs={'BitWriteStreamT': r'ffsm2::detail::BitWriteStreamT<\d+>$', 'StreamBufferT': r'ffsm2::detail::StreamBufferT<\d+>$'},
        array_max={'StreamBufferT._data': 32},
        consts={'BitWriteStreamT__NBitCapacity': ('range', 1, 255),
                'StreamBufferT__NBitCapacity': ('expr', 'BitWriteStreamT__BIT_CAPACITY'),
                'BitWriteStreamT__write__NBitWidth': ('range', lo, hi)},
        ghost=['uint8_t g_q;   /* arbitrary bit index */'],
        unwindset={'BitWriteStreamT__write.0': 6}, need_consts=['BitWriteStreamT.BIT_CAPACITY'],
        contracts={fn: dict(
            requires=[fresh('self'), fresh('self->_buffer', '*self->_buffer'),
                      '(int)self->_cursor + (int)BitWriteStreamT__write__NBitWidth <= (int)BitWriteStreamT__BIT_CAPACITY',
                      fits, 'g_q < BitWriteStreamT__BIT_CAPACITY',
                      # bits at and past the cursor are zero (established by the constructor, preserved by write)
                      implies('g_q >= self->_cursor', QB + ' == 0')],
            assigns=['self->_cursor', '__CPROVER_object_whole(self->_buffer)'],
            ensures=[('C13', 'self->_cursor == __CPROVER_old(self->_cursor) + BitWriteStreamT__write__NBitWidth'),
                     ('C13', implies('g_q < __CPROVER_old(self->_cursor)', '%s == %s' % (QB, OLDQB))),
                     ('C13', implies('g_q >= __CPROVER_old(self->_cursor) && g_q < self->_cursor', '%s == (((uint32_t)item >> (g_q - __CPROVER_old(self->_cursor))) & 1u)' % QB)),
                     ('C13', implies('g_q >= self->_cursor', QB + ' == 0'))])})

def rs(id_, item_bits, lo, hi, wit_width):
    fn = 'BitReadStreamT__read'
    return dict(
        id='c13.read.' + id_, witness=W, props=['C13', 'C18'],
        target=dict(cls=r'BitReadStreamT<\d+>$', name='read', nparams=0, targs='^%d$' % wit_width),
        recs={'BitReadStreamT': r'ffsm2::detail::BitReadStreamT<\d+>$', 'StreamBufferT': r'ffsm2::detail::StreamBufferT<\d+>$'},
        array_max={'StreamBufferT._data': 32},
        consts={'BitReadStreamT__NBitCapacity': ('range', 1, 255),
                'StreamBufferT__NBitCapacity': ('expr', 'BitReadStreamT__BIT_CAPACITY'),
                'BitReadStreamT__read__NBitWidth': ('range', lo, hi)},
        ghost=['uint8_t g_q;   /* arbitrary bit index of the buffer */', 'uint8_t g_j;   /* arbitrary bit index of the result */'],
        unwindset={'BitReadStreamT__read.0': 6}, need_consts=['BitReadStreamT.BIT_CAPACITY'],
        contracts={fn: dict(
            requires=[fresh('self'), fresh('self->_buffer', '*self->_buffer'),
                      '(int)self->_cursor + (int)BitReadStreamT__read__NBitWidth <= (int)BitReadStreamT__BIT_CAPACITY',
                      'g_j < BitReadStreamT__read__NBitWidth'],
            assigns=['self->_cursor'],
            ensures=[('C13', 'self->_cursor == __CPROVER_old(self->_cursor) + BitReadStreamT__read__NBitWidth'),
                     ('C13', '(((uint32_t)__CPROVER_return_value >> g_j) & 1u) == ' + bit(DATA, '(__CPROVER_old(self->_cursor) + g_j)')),
                     ('C13', '(BitReadStreamT__read__NBitWidth == %d || ((uint32_t)__CPROVER_return_value >> BitReadStreamT__read__NBitWidth) == 0)' % item_bits)])})

UNITS = [
    ws('u8', 8, 1, 8, 5), ws('u16', 16, 9, 16, 13), ws('u32', 32, 17, 32, 27),
    rs('u8', 8, 1, 8, 5), rs('u16', 16, 9, 16, 13), rs('u32', 32, 17, 32, 27),
]

# ---------------------------------------------------------------------------------------------
BW_POST = '(v == 0 ? __CPROVER_return_value == 0 : (__CPROVER_return_value >= 1 && __CPROVER_return_value <= 32 && (v >> (__CPROVER_return_value - 1)) == 1u))'
UNITS += [
    dict(id='c13.bitWidth', witness=W, props=['C13', 'C12', 'C18'],
         target=dict(cls=None, name='bitWidth', nparams=1),
         contracts={'bitWidth': dict(requires=[], assigns=[],
             # for every 32-bit v: 2^(r-1) <= v < 2^r  (r = 0 for v = 0)
             ensures=[('C13', BW_POST)])}),
    # "the bit width derived for a state count always suffices to encode every state index of that count":
    # consequence of bitWidth's contract, checked as a lemma over the contract (not the body)
    dict(id='c13.bitWidth_suffices', witness=W, props=['C13', 'C12'],
         target=dict(ghost='lemma_width_suffices'),
         also=[dict(cls=None, name='bitWidth', nparams=1, mode='contract')],
         ghost_fns={'lemma_width_suffices': dict(
             sig='void lemma_width_suffices(uint32_t n, uint32_t k)',
             body='{\n\tuint32_t r = bitWidth(n);\n\t__CPROVER_assert(r >= 1 && r <= 8, "width of a state count 1..255 is 1..8 bits");\n\t__CPROVER_assert((k >> r) == 0, "every index below the count fits the derived width");\n}\n')},
         contracts={'lemma_width_suffices': dict(requires=['n >= 1 && n <= 255', 'k < n'], assigns=[], ensures=[]),
                    'bitWidth': dict(requires=[], assigns=[], ensures=[BW_POST])}),
    dict(id='c13.contain', witness=W, props=['C13', 'C18'],
         target=dict(cls=None, name='contain', nparams=2, sig=r'unsigned int'),
         contracts={'contain__unsigned_char_unsigned_int': dict(requires=['to == 8', 'x >= 1'], assigns=[],
             # byte index of any bit below x is below contain(x, 8)
             ensures=[('C13', '((x - 1) >> 3) < __CPROVER_return_value'), ('C13', '__CPROVER_return_value * 8 >= x && (__CPROVER_return_value - 1) * 8 < x')])}),
]

SB = dict(witness=W, props=['C13', 'C12', 'C18'],
          recs={'StreamBufferT': r'ffsm2::detail::StreamBufferT<\d+>$'},
          array_max={'StreamBufferT._data': 32},
          ghost=['uint8_t g_q;   /* arbitrary bit index */', 'uint8_t g_u;   /* arbitrary byte index */'])
def any_differs(a, b, count, n=32):
    return '(' + ' || '.join('(%d < %s && %s[%d] != %s[%d])' % (u, count, a, u, b, u) for u in range(n)) + ')'
UNITS += [
    dict(SB, id='c13.buffer.clear', target=dict(cls=r'StreamBufferT<\d+>$', name='clear', nparams=0),
         consts={'StreamBufferT__NBitCapacity': ('range', 1, 255)},
         contracts={'StreamBufferT__clear': dict(requires=[fresh('self'), 'g_u < StreamBufferT__BYTE_COUNT'],
                                                 assigns=['__CPROVER_object_whole(self)'], ensures=[('C13', 'self->_data[g_u] == 0')])}),
    dict(SB, id='c13.buffer.eq', target=dict(cls=r'StreamBufferT<\d+>$', name='operator==', nparams=1),
         consts={'StreamBufferT__NBitCapacity': ('range', 1, 255)},
         contracts={'StreamBufferT__op_eq': dict(requires=[fresh('self'), fresh('buffer')], assigns=[],
             ensures=[('C12', '__CPROVER_return_value == !' + any_differs('self->_data', 'buffer->_data', 'StreamBufferT__BYTE_COUNT'))],
             loops={0: dict(assigns=['i'], invariant=['i <= StreamBufferT__BYTE_COUNT', '!' + any_differs('self->_data', 'buffer->_data', 'i')],
                            decreases='StreamBufferT__BYTE_COUNT - i')})}),
    dict(SB, id='c13.buffer.ne', target=dict(cls=r'StreamBufferT<\d+>$', name='operator!=', nparams=1),
         consts={'StreamBufferT__NBitCapacity': ('range', 1, 255)},
         contracts={'StreamBufferT__op_ne': dict(requires=[fresh('self'), fresh('buffer')], assigns=[],
             ensures=[('C12', '__CPROVER_return_value == ' + any_differs('self->_data', 'buffer->_data', 'StreamBufferT__BYTE_COUNT'))],
             loops={0: dict(assigns=['i'], invariant=['i <= StreamBufferT__BYTE_COUNT', '!' + any_differs('self->_data', 'buffer->_data', 'i')],
                            decreases='StreamBufferT__BYTE_COUNT - i')})}),
]

UNITS += [
    dict(id='c13.write.ctor', witness=W, props=['C13', 'C12', 'C18'],
         target=dict(cls=r'BitWriteStreamT<\d+>$', kind='ctor', name='BitWriteStreamT', nparams=2),
         recs={'BitWriteStreamT': r'ffsm2::detail::BitWriteStreamT<\d+>$', 'StreamBufferT': r'ffsm2::detail::StreamBufferT<\d+>$'},
         array_max={'StreamBufferT._data': 32},
         consts={'StreamBufferT__NBitCapacity': ('range', 1, 255)},
         ghost=['uint8_t g_q;   /* arbitrary bit index */'],
         contracts={'BitWriteStreamT__ctor2': dict(
             requires=[fresh('self'), fresh('buffer'), 'g_q < StreamBufferT__BIT_CAPACITY'],
             assigns=['__CPROVER_object_whole(self)', '__CPROVER_object_whole(buffer)'],
             # a fresh write stream starts at the given cursor over an all-zero buffer
             ensures=[('C13', 'self->_buffer == buffer && self->_cursor == cursor'),
                      ('C13', bit('buffer->_data', 'g_q') + ' == 0')])}),
    dict(id='c13.read.ctor', witness=W, props=['C13', 'C12', 'C18'],
         target=dict(cls=r'BitReadStreamT<\d+>$', kind='ctor', name='BitReadStreamT', nparams=2),
         recs={'BitReadStreamT': r'ffsm2::detail::BitReadStreamT<\d+>$', 'StreamBufferT': r'ffsm2::detail::StreamBufferT<\d+>$'},
         array_max={'StreamBufferT._data': 32},
         consts={'StreamBufferT__NBitCapacity': ('range', 1, 255)},
         contracts={'BitReadStreamT__ctor2': dict(
             requires=[fresh('self'), fresh('buffer')],
             assigns=['__CPROVER_object_whole(self)'],
             ensures=[('C13', 'self->_buffer == buffer && self->_cursor == cursor')])}),
]
