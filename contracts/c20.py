"""C20  Bit sets and fixed arrays behave like their mathematical models.

Model of BitArrayT<N>: the set { g < CAPACITY : bit g of _storage }.  Universally quantified clauses are
written for one arbitrary ghost index g_q (rigid global, never assigned): proving the clause for an
arbitrary g_q proves it for all indices.  CAPACITY is symbolic in 1..255."""
from contracts.common import *

W = 'w_containers'
BA = dict(
    witness=W,
    recs={'BitArrayT': r'ffsm2::detail::BitArrayT<[1-9]\d*>$'},
    array_max={'BitArrayT._storage': 32},
    consts={'BitArrayT__NCapacity': ('range', 1, 255)},
    ghost=['uint8_t g_q;   /* arbitrary bit index  */', 'uint8_t g_u;   /* arbitrary unit index */'],
    props=['C20', 'C18'],
)
SELF = fresh('self')
INQ = 'g_q < BitArrayT__CAPACITY'
INU = 'g_u < BitArrayT__UNIT_COUNT'
B = lambda: bit('self->_storage', 'g_q')
OLDB = '((__CPROVER_old(self->_storage[g_q >> 3]) >> (g_q & 7)) & 1u)'
# representation invariant needed by empty(): padding bits of the last unit are zero
PAD0 = '(BitArrayT__CAPACITY % 8 == 0 || (self->_storage[BitArrayT__UNIT_COUNT - 1] >> (BitArrayT__CAPACITY % 8)) == 0)'

def ba(id_, target, contracts, **kw):
    u = dict(BA); u.update(id='c20.bitarray.' + id_, target=dict(cls=r'BitArrayT<[1-9]\d*>$', **target), contracts=contracts); u.update(kw)
    return u

UNITS = [
    ba('set_i', dict(name='set', nparams=1), {
        'BitArrayT__set__1__unsigned_char': dict(
            requires=[SELF, 'index < BitArrayT__CAPACITY', INQ, PAD0],
            assigns=['self->_storage[index >> 3]'],
            ensures=[('C20', '%s == ((g_q == index) ? 1u : %s)' % (B(), OLDB)),
                     ('C20', PAD0)])}),
    ba('clear_i', dict(name='clear', nparams=1), {
        'BitArrayT__clear__1__unsigned_char': dict(
            requires=[SELF, 'index < BitArrayT__CAPACITY', INQ, PAD0],
            assigns=['self->_storage[index >> 3]'],
            ensures=[('C20', '%s == ((g_q == index) ? 0u : %s)' % (B(), OLDB)),
                     ('C20', PAD0)])}),
    ba('get', dict(name='get', nparams=1), {
        'BitArrayT__get__unsigned_char': dict(
            requires=[SELF, 'index < BitArrayT__CAPACITY'],
            assigns=[],
            ensures=[('C20', '__CPROVER_return_value == (%s != 0)' % bit('self->_storage', 'index'))])}),
]
