"""C20  Bit sets and fixed arrays behave like their mathematical models.

Model of BitArrayT<N>: the set { g < CAPACITY : bit g of _storage }.  Universally quantified clauses are
written for one arbitrary ghost index g_q (rigid global, never assigned): proving the clause for an
arbitrary g_q proves it for all indices.  CAPACITY is symbolic in 1..255."""
from contracts.common import *

W = 'w_containers'
BA = dict(
    witness=W,
    recs={'BitArrayT': r'ffsm2::detail::BitArrayT<[1-9]\d*>$'},
    array_max={'BitArrayT._storage': 32},
    consts={'BitArrayT__NCapacity': ('range', 1, 255)},
    ghost=['uint8_t g_q;   /* arbitrary bit index  */', 'uint8_t g_u;   /* unit of g_q (harness) */', 'uint8_t g_last; /* last unit (harness) */'],
    props=['C20', 'C18'],
)
SELF = fresh('self')
INQ = 'g_q < BitArrayT__CAPACITY'
INU = 'g_u < BitArrayT__UNIT_COUNT'
B = lambda: bit('self->_storage', 'g_q')
OLDB = '((__CPROVER_old(self->_storage[g_q >> 3]) >> (g_q & 7)) & 1u)'
# representation invariant needed by empty(): padding bits of the last unit are zero
PAD0 = '(BitArrayT__CAPACITY % 8 == 0 || (self->_storage[BitArrayT__UNIT_COUNT - 1] >> (BitArrayT__CAPACITY % 8)) == 0)'

GH = ['g_u = g_q >> 3;', 'g_last = BitArrayT__UNIT_COUNT - 1;']

def ba(id_, target, contracts, **kw):
    u = dict(BA); u.update(id='c20.bitarray.' + id_, target=dict(cls=r'BitArrayT<[1-9]\d*>$', **target), contracts=contracts); u.update(kw)
    return u

UNITS = [
    ba('set_i', dict(name='set', nparams=1), {
        'BitArrayT__set__1__unsigned_char': dict(
            requires=[SELF, 'index < BitArrayT__CAPACITY', INQ, PAD0],
            assigns=['self->_storage[index >> 3]'],
            ensures=[('C20', '%s == ((g_q == index) ? 1u : %s)' % (B(), OLDB)),
                     ('C20', PAD0)])}),
    ba('clear_i', dict(name='clear', nparams=1), {
        'BitArrayT__clear__1__unsigned_char': dict(
            requires=[SELF, 'index < BitArrayT__CAPACITY', INQ, PAD0],
            assigns=['self->_storage[index >> 3]'],
            ensures=[('C20', '%s == ((g_q == index) ? 0u : %s)' % (B(), OLDB)),
                     ('C20', PAD0)])}),
    ba('get', dict(name='get', nparams=1), {
        'BitArrayT__get__unsigned_char': dict(
            requires=[SELF, 'index < BitArrayT__CAPACITY'],
            assigns=[],
            ensures=[('C20', '__CPROVER_return_value == (%s != 0)' % bit('self->_storage', 'index'))])}),

    # ---- whole-array operations: byte loops closed by loop contracts (unbounded in CAPACITY)
    ba('set_all', dict(name='set', nparams=0), {
        'BitArrayT__set__0': dict(
            requires=[SELF, INQ],
            assigns=['__CPROVER_object_whole(self)'],
            ensures=[('C20', '%s == 1u' % B()),
                     ('C20', PAD0)],
            loops={0: dict(assigns=['__k0', '__CPROVER_object_whole(self)'],
                           invariant=['__k0 <= BitArrayT__UNIT_COUNT',
                                      implies('g_u < __k0', 'self->_storage[g_u] == 255'),
                                      ],
                           decreases='BitArrayT__UNIT_COUNT - __k0')})},
        harness_pre=GH),
    ba('clear_all', dict(name='clear', nparams=0), {
        'BitArrayT__clear__0': dict(
            requires=[SELF, INQ],
            assigns=['__CPROVER_object_whole(self)'],
            ensures=[('C20', '%s == 0u' % B()),
                     ('C20', PAD0)],
            loops={0: dict(assigns=['__k0', '__CPROVER_object_whole(self)'],
                           invariant=['__k0 <= BitArrayT__UNIT_COUNT',
                                      implies('g_u < __k0', 'self->_storage[g_u] == 0'),
                                      implies('g_last < __k0', 'self->_storage[g_last] == 0')],
                           decreases='BitArrayT__UNIT_COUNT - __k0')})},
        harness_pre=GH),
]

# ---------------------------------------------------------------------------------------------
# remaining BitArrayT operations
def any_unit_nonzero(arr, count, n=32):
    """quantifier-free 'exists u < count: arr[u] != 0' (the array has at most n units)"""
    return '(' + ' || '.join('(%d < %s && %s[%d] != 0)' % (u, count, arr, u) for u in range(n)) + ')'

OBIT = bit('other->_storage', 'g_q')
UNITS += [
    ba('empty', dict(name='empty', nparams=0), {
        'BitArrayT__empty': dict(
            # (the representation invariant -- padding bits of the last unit are zero, kept by every operation -- is part of the
            #  precondition: an empty() that masks the padding and one that relies on the invariant are both correct)
            requires=[SELF, PAD0],
            assigns=[],
            ensures=[('C20', '__CPROVER_return_value == !%s' % any_unit_nonzero('self->_storage', 'BitArrayT__UNIT_COUNT'))],
            loops={0: dict(assigns=['__k0'],
                           invariant=['__k0 <= BitArrayT__UNIT_COUNT',
                                      '!' + any_unit_nonzero('self->_storage', '__k0')],
                           decreases='BitArrayT__UNIT_COUNT - __k0')})}),
    ba('and_assign', dict(name='operator&=', nparams=1), {
        'BitArrayT__op_andassign': dict(
            requires=[SELF, fresh('other'), INQ, PAD0],
            assigns=['__CPROVER_object_whole(self)'],
            ensures=[('C20', '%s == (%s & %s)' % (B(), OLDB, OBIT)),
                     ('C20', PAD0)],
            loops={0: dict(assigns=['i', '__CPROVER_object_whole(self)'],
                           invariant=['i <= BitArrayT__UNIT_COUNT'] +
                                     ['self->_storage[%s] == (%s < i ? (__CPROVER_loop_entry(self->_storage[%s]) & other->_storage[%s]) : __CPROVER_loop_entry(self->_storage[%s]))' % (g, g, g, g, g) for g in ('g_u', 'g_last')],
                           decreases='BitArrayT__UNIT_COUNT - i')})},
        harness_pre=GH),
    ba('ctor', dict(kind='ctor', name='BitArrayT', nparams=0), {
        'BitArrayT__ctor0': dict(
            requires=[SELF, INQ],
            assigns=['__CPROVER_object_whole(self)'],
            ensures=[('C20', '%s == 0u' % B()), ('C20', PAD0)]),
        'BitArrayT__clear__0': dict(
            requires=[],
            assigns=['__CPROVER_object_whole(self)'],
            ensures=['%s == 0u' % B(), PAD0])},
        calls={'BitArrayT__clear__0': 'contract'}),
]

# ---------------------------------------------------------------------------------------------
# StaticArrayT<T, N> / DynamicArrayT<T, N> / IteratorT: element type per witness (uint8_t, TaskLink, Elem8)
def sa(id_, elem, target, contracts, **kw):
    u = dict(witness=W, props=['C20', 'C18'],
             recs={'StaticArrayT': r'ffsm2::detail::StaticArrayT<%s,\d+>$' % elem},
             consts={'StaticArrayT__NCapacity': ('range', 1, 255)},
             ghost=['uint8_t g_q;   /* arbitrary element index */'],
             id='c20.static.%s' % id_, target=dict(cls=r'StaticArrayT<%s,\d+>$' % elem, **target), contracts=contracts)
    u.update(kw)
    return u

SQ = 'g_q < StaticArrayT__CAPACITY'
UNITS += [
    sa('index_u8', 'unsigned char', dict(name='operator[]', nparams=1, const=False), {
        'StaticArrayT__op_index__unsigned_char': dict(
            requires=[SELF, 'index < StaticArrayT__CAPACITY'], assigns=[],
            ensures=[('C20', '__CPROVER_return_value == &self->_items[index]')])}),
    sa('index_c_u8', 'unsigned char', dict(name='operator[]', nparams=1, const=True), {
        'StaticArrayT__op_index_c__unsigned_char': dict(
            requires=[SELF, 'index < StaticArrayT__CAPACITY'], assigns=[],
            ensures=[('C20', '__CPROVER_return_value == &self->_items[index]')])}),
    sa('fill_u8', 'unsigned char', dict(name='fill', nparams=1), {
        'StaticArrayT__fill': dict(
            requires=[SELF, SQ], assigns=['__CPROVER_object_whole(self)'],
            ensures=[('C20', 'self->_items[g_q] == filler')],
            loops={0: dict(assigns=['__k0', '__CPROVER_object_whole(self)'],
                           invariant=['__k0 <= StaticArrayT__CAPACITY', implies('g_q < __k0', 'self->_items[g_q] == filler')],
                           decreases='StaticArrayT__CAPACITY - __k0')})}),
    sa('clear_u8', 'unsigned char', dict(name='clear', nparams=0), {
        'StaticArrayT__clear': dict(
            requires=[SELF, SQ], assigns=['__CPROVER_object_whole(self)'],
            ensures=[('C20', 'self->_items[g_q] == 255')]),
        'StaticArrayT__fill': dict(requires=[], assigns=['__CPROVER_object_whole(self)'], ensures=['self->_items[g_q] == filler'])},
        calls={'StaticArrayT__fill': 'contract'}),
    sa('count_u8', 'unsigned char', dict(name='count', nparams=0), {
        'StaticArrayT__count': dict(requires=[SELF], assigns=[], ensures=[('C20', '__CPROVER_return_value == StaticArrayT__CAPACITY')])}),
]

def all_eq(arr, count, val, n=256):
    return '(' + ' && '.join('(!(%d < %s) || %s[%d] == %s)' % (u, count, arr, u, val) for u in range(n)) + ')'

UNITS += [
    sa('empty_u8', 'unsigned char', dict(name='empty', nparams=0), {
        'StaticArrayT__empty': dict(
            requires=[SELF, SQ], assigns=[],
            # result true  => every element equals the filler (shown for the arbitrary index g_q)
            # result false => the element the scan stopped at differs: expressed through the ghost as the contrapositive
            ensures=[('C20', implies('__CPROVER_return_value', 'self->_items[g_q] == 255')),
                     ('C20', implies('!__CPROVER_return_value', '!' + all_eq('self->_items', 'StaticArrayT__CAPACITY', '255')))],
            loops={0: dict(assigns=['__k0'],
                           invariant=['__k0 <= StaticArrayT__CAPACITY', implies('g_q < __k0', 'self->_items[g_q] == 255')],
                           decreases='StaticArrayT__CAPACITY - __k0')})}),
    sa('ctor_fill_u8', 'unsigned char', dict(kind='ctor', name='StaticArrayT', nparams=1, sig=r'\(const'), {
        'StaticArrayT__ctor1': dict(
            requires=[SELF, SQ], assigns=['__CPROVER_object_whole(self)'],
            ensures=[('C20', 'self->_items[g_q] == filler')]),
        'StaticArrayT__fill': dict(requires=[], assigns=['__CPROVER_object_whole(self)'], ensures=['self->_items[g_q] == filler'])},
        calls={'StaticArrayT__fill': 'contract'}),
    # element type TaskLink (a two-byte struct with default member initialisers)
    sa('index_link', 'ffsm2::detail::TaskLink', dict(name='operator[]', nparams=1, const=False), {
        'StaticArrayT__op_index__unsigned_char': dict(
            requires=[SELF, 'index < StaticArrayT__CAPACITY'], assigns=[],
            ensures=[('C20', '__CPROVER_return_value == &self->_items[index]')])}),
    sa('fill_link', 'ffsm2::detail::TaskLink', dict(name='fill', nparams=1), {
        'StaticArrayT__fill': dict(
            requires=[SELF, SQ], assigns=['__CPROVER_object_whole(self)'],
            ensures=[('C20', 'self->_items[g_q].prev == filler.prev && self->_items[g_q].next == filler.next')],
            loops={0: dict(assigns=['__k0', '__CPROVER_object_whole(self)'],
                           invariant=['__k0 <= StaticArrayT__CAPACITY', implies('g_q < __k0', 'self->_items[g_q].prev == filler.prev && self->_items[g_q].next == filler.next')],
                           decreases='StaticArrayT__CAPACITY - __k0')})}),
    sa('clear_link', 'ffsm2::detail::TaskLink', dict(name='clear', nparams=0), {
        'StaticArrayT__clear': dict(
            requires=[SELF, SQ], assigns=['__CPROVER_object_whole(self)'],
            ensures=[('C20', 'self->_items[g_q].prev == 255 && self->_items[g_q].next == 255')]),
        'StaticArrayT__fill': dict(requires=[], assigns=['__CPROVER_object_whole(self)'],
                                   ensures=['self->_items[g_q].prev == filler.prev && self->_items[g_q].next == filler.next'])},
        calls={'StaticArrayT__fill': 'contract'}),
]

# ---------------------------------------------------------------------------------------------
def da(id_, elem, target, contracts, **kw):
    u = dict(witness=W, props=['C20', 'C18'],
             recs={'DynamicArrayT': r'ffsm2::detail::DynamicArrayT<%s,\d+>$' % elem,
                   'IteratorT': r'ffsm2::detail::IteratorT<ffsm2::detail::DynamicArrayT<%s,\d+>>$' % elem,
                   'CIteratorT': r'ffsm2::detail::IteratorT<const ffsm2::detail::DynamicArrayT<%s,\d+>>$' % elem},
             consts={'DynamicArrayT__NCapacity': ('range', 1, 255)},
             ghost=['uint8_t g_q;   /* arbitrary element index */'],
             id='c20.dynamic.%s' % id_, target=dict(cls=r'DynamicArrayT<%s,\d+>$' % elem, **target), contracts=contracts)
    u.update(kw)
    return u

DWF = 'self->_count <= DynamicArrayT__CAPACITY'
UNITS += [
    da('emplace_u8', 'unsigned char', dict(name='emplace', nparams=1, sig=r'\(const unsigned char ?&\)'), {
        'DynamicArrayT__emplace__unsigned_char': dict(
            requires=[SELF, fresh('args'), 'self->_count < DynamicArrayT__CAPACITY', 'g_q < self->_count'],
            assigns=['self->_count', 'self->_items[self->_count]'],
            ensures=[('C20', '__CPROVER_return_value == __CPROVER_old(self->_count)'),
                     ('C20', 'self->_count == __CPROVER_old(self->_count) + 1'),
                     ('C20', 'self->_items[__CPROVER_return_value] == *args'),
                     ('C20', 'self->_items[g_q] == __CPROVER_old(self->_items[g_q])')])}),
    da('index_u8', 'unsigned char', dict(name='operator[]', nparams=1, const=False), {
        'DynamicArrayT__op_index__unsigned_char': dict(
            requires=[SELF, DWF, 'index < self->_count'], assigns=[],
            ensures=[('C20', '__CPROVER_return_value == &self->_items[index]')])}),
    da('count_u8', 'unsigned char', dict(name='count', nparams=0), {
        'DynamicArrayT__count': dict(requires=[SELF], assigns=[], ensures=[('C20', '__CPROVER_return_value == self->_count')])}),
    da('clear_u8', 'unsigned char', dict(name='clear', nparams=0), {
        'DynamicArrayT__clear': dict(requires=[SELF], assigns=['self->_count'], ensures=[('C20', 'self->_count == 0')])}),
    da('empty_u8', 'unsigned char', dict(name='empty', nparams=0), {
        'DynamicArrayT__empty': dict(requires=[SELF], assigns=[], ensures=[('C20', '__CPROVER_return_value == (self->_count == 0)')])}),
    da('append_item_u8', 'unsigned char', dict(name='operator+=', nparams=1, sig=r'\(const ffsm2::detail::DynamicArrayT<unsigned char, \S+>::Item ?&\)'), {
        'DynamicArrayT__op_addassign': dict(
            requires=[SELF, fresh('item'), 'self->_count < DynamicArrayT__CAPACITY', 'g_q < self->_count'],
            assigns=['self->_count', 'self->_items[self->_count]'],
            ensures=[('C20', '__CPROVER_return_value == self'),
                     ('C20', 'self->_count == __CPROVER_old(self->_count) + 1'),
                     ('C20', 'self->_items[__CPROVER_old(self->_count)] == *item'),
                     ('C20', 'self->_items[g_q] == __CPROVER_old(self->_items[g_q])')])}),
]

# iteration: begin() at index 0, operator!= against limit() == count, ++ advances by one, * yields element at the cursor
ITF = [fresh('self'), fresh('self->_container', '*self->_container')]
UNITS += [
    da('begin_u8', 'unsigned char', dict(name='begin', nparams=0, const=False), {
        'DynamicArrayT__begin': dict(requires=[SELF], assigns=[],
            ensures=[('C20', '__CPROVER_return_value._container == self && __CPROVER_return_value._cursor == 0')])}),
    da('end_u8', 'unsigned char', dict(name='end', nparams=0, const=False), {
        'DynamicArrayT__end': dict(requires=[SELF, DWF], assigns=[],
            ensures=[('C20', '__CPROVER_return_value._container == self && __CPROVER_return_value._cursor == self->_count')])}),
    da('cbegin_u8', 'unsigned char', dict(name='begin', nparams=0, const=True), {
        'DynamicArrayT__begin_c': dict(requires=[SELF], assigns=[],
            ensures=[('C20', '__CPROVER_return_value._container == self && __CPROVER_return_value._cursor == 0')])}),
    da('cend_u8', 'unsigned char', dict(name='end', nparams=0, const=True), {
        'DynamicArrayT__end_c': dict(requires=[SELF, DWF], assigns=[],
            ensures=[('C20', '__CPROVER_return_value._container == self && __CPROVER_return_value._cursor == self->_count')])}),
    dict(da('it_ne_u8', 'unsigned char', dict(name='operator!=', nparams=1), {
        'IteratorT__op_ne': dict(requires=ITF + [fresh('_unnamed0')], assigns=[],
            ensures=[('C20', '__CPROVER_return_value == (self->_cursor != self->_container->_count)')])}),
         target=dict(cls=r'IteratorT<ffsm2::detail::DynamicArrayT<unsigned char,\d+>>$', name='operator!=', nparams=1)),
    dict(da('it_inc_u8', 'unsigned char', dict(name='operator++', nparams=0), {
        'IteratorT__op_inc': dict(requires=ITF + ['self->_cursor < self->_container->_count', 'self->_container->_count <= DynamicArrayT__CAPACITY'], assigns=['self->_cursor'],
            ensures=[('C20', 'self->_cursor == __CPROVER_old(self->_cursor) + 1'), ('C20', '__CPROVER_return_value == self')])}),
         target=dict(cls=r'IteratorT<ffsm2::detail::DynamicArrayT<unsigned char,\d+>>$', name='operator++', nparams=0)),
    dict(da('it_deref_u8', 'unsigned char', dict(name='operator*', nparams=0), {
        'IteratorT__op_deref': dict(requires=ITF + ['self->_cursor < self->_container->_count', 'self->_container->_count <= DynamicArrayT__CAPACITY'], assigns=[],
            ensures=[('C20', '__CPROVER_return_value == &self->_container->_items[self->_cursor]')])}),
         target=dict(cls=r'IteratorT<ffsm2::detail::DynamicArrayT<unsigned char,\d+>>$', name='operator*', nparams=0, const=False)),
    dict(da('cit_ne_u8', 'unsigned char', dict(name='operator!=', nparams=1), {
        'CIteratorT__op_ne': dict(requires=ITF + [fresh('_unnamed0')], assigns=[],
            ensures=[('C20', '__CPROVER_return_value == (self->_cursor != self->_container->_count)')])}),
         target=dict(cls=r'IteratorT<const ffsm2::detail::DynamicArrayT<unsigned char,\d+>>$', name='operator!=', nparams=1)),
    dict(da('cit_inc_u8', 'unsigned char', dict(name='operator++', nparams=0), {
        'CIteratorT__op_inc': dict(requires=ITF + ['self->_cursor < self->_container->_count', 'self->_container->_count <= DynamicArrayT__CAPACITY'], assigns=['self->_cursor'],
            ensures=[('C20', 'self->_cursor == __CPROVER_old(self->_cursor) + 1'), ('C20', '__CPROVER_return_value == self')])}),
         target=dict(cls=r'IteratorT<const ffsm2::detail::DynamicArrayT<unsigned char,\d+>>$', name='operator++', nparams=0)),
    dict(da('cit_deref_u8', 'unsigned char', dict(name='operator*', nparams=0), {
        'CIteratorT__op_deref': dict(requires=ITF + ['self->_cursor < self->_container->_count', 'self->_container->_count <= DynamicArrayT__CAPACITY'], assigns=[],
            ensures=[('C20', '__CPROVER_return_value == &self->_container->_items[self->_cursor]')])}),
         target=dict(cls=r'IteratorT<const ffsm2::detail::DynamicArrayT<unsigned char,\d+>>$', name='operator*', nparams=0)),
]

UNITS += [
    da('append_array_u8', 'unsigned char', dict(name='operator+=', nparams=1, sig=r'\(const DynamicArrayT<'), {
        "DynamicArrayT__op_addassign": dict(
            requires=[SELF, fresh('other'), 'other->_count <= DynamicArrayT__CAPACITY',
                      '(int)self->_count + (int)other->_count <= (int)DynamicArrayT__CAPACITY', '(int)g_q < (int)self->_count + (int)other->_count'],
            assigns=['__CPROVER_object_whole(self)'],
            ensures=[('C20', 'self->_count == __CPROVER_old(self->_count) + other->_count'),
                     ('C20', 'self->_items[g_q] == (g_q < __CPROVER_old(self->_count) ? __CPROVER_old(self->_items[g_q]) : other->_items[g_q - __CPROVER_old(self->_count)])'),
                     ('C20', '__CPROVER_return_value == self')],
            loops={0: dict(assigns=['__begin0', '__CPROVER_object_whole(self)'],
                           invariant=['__begin0._container == other', '__end0._container == other', '__begin0._cursor <= other->_count',
                                      'self->_count == __CPROVER_loop_entry(self->_count) + __begin0._cursor',
                                      implies('g_q < self->_count', 'self->_items[g_q] == (g_q < __CPROVER_loop_entry(self->_count) ? __CPROVER_loop_entry(self->_items[g_q]) : other->_items[g_q - __CPROVER_loop_entry(self->_count)])')],
                           decreases='other->_count - __begin0._cursor')})}),
]

# the whole-array append needs ~2.5 min at capacity 255: thorough tier; the quick tier proves the same contract for capacity <= 24
_aa = [u for u in UNITS if u['id'] == 'c20.dynamic.append_array_u8'][0]
_aa['tier'] = 'thorough'
_q = dict(_aa); _q['id'] = 'c20.dynamic.append_array_u8.cap24'; _q['tier'] = 'quick'
_q['consts'] = {'DynamicArrayT__NCapacity': ('range', 1, 24)}; _q['array_max'] = {'DynamicArrayT._items': 24}
_q['bounded'] = 'capacity <= 24 (the thorough tier proves 1..255)'
UNITS.append(_q)
