"""Control objects (L3): the API user callbacks act through (C06, C07, C16, C02) and the payload carriers."""
from contracts.common import *
from contracts.machine import *

CT_RECS = dict(RECS); CT_RECS.update({'Origin': r'^ffsm2::detail::ControlT<.*>::Origin$', 'COrigin': r'^ffsm2::detail::ConstControlT<.*>::Origin$'})
def ctl_unit(id_, cls, name, nparams, fn, contract, props, extra=None, calls=None, **kw):
    contracts = {fn: contract}; contracts.update(LOGREC); contracts.update(extra or {})
    cl = {'re:^LoggerInterfaceT__': 'contract'}; cl.update(calls or {})
    tgt = dict(cls=cls, name=name, nparams=nparams)
    tgt.update(kw.pop('target_extra', {}))
    u = dict(id='control.' + id_, witness=W, recs=CT_RECS, opaque=OPAQUE, opaque_keep=R_KEEP, props=props, target=tgt,
             consts=CONSTS, need_consts=['ArgsT.STATE_COUNT'], ghost=GHOST, calls=cl, contracts=contracts)
    u.update(kw)
    return u

SELF_CORE = 'self->_b0._b0._core'          # FullControlBaseT -> PlanControlT -> ControlT
ORIGIN = 'self->_b0._b0._originId'
FB_TARGET = [fresh('self'), fresh(SELF_CORE, '*' + SELF_CORE), '(%s->logger == (void*)0 || __CPROVER_is_fresh(%s->logger, sizeof(*%s->logger)))' % (SELF_CORE, SELF_CORE, SELF_CORE),
             '(%s->context == (void*)0 || __CPROVER_is_fresh(%s->context, sizeof(*%s->context)))' % (SELF_CORE, SELF_CORE, SELF_CORE)]
REQ = SELF_CORE + '->request'
def with_lock(locked_field, eff, unchanged):
    def imp(c, e):
        return (e[0], implies(c, e[1])) if isinstance(e, tuple) else implies(c, e)
    return [imp('!__CPROVER_old(%s)' % locked_field, e) for e in eff] + [imp('__CPROVER_old(%s)' % locked_field, u) for u in unchanged]

UNITS = [
    # FullControl::changeTo: records the calling state as origin, replaces the outstanding request, never touches the registry
    ctl_unit('changeTo', r'^ffsm2::detail::FullControlBaseT<', 'changeTo', 1, 'FullControlBaseT__changeTo__1', dict(
        requires_target=FB_TARGET, requires=['g_clock < ' + BIG],
        assigns=[REQ] + REC_ASSIGNS,
        ensures=with_lock('self->_locked',
                          [('C06,C02,C11', '%s._b0.origin == %s && %s._b0.destination == stateId_ && %s._b0.method == Method__NONE && !%s.payloadSet' % (REQ, ORIGIN, REQ, REQ, REQ))]
                          + [e for e in logged(1, ORIGIN, 'stateId_', SELF_CORE + '->logger')],
                          [t_eq(REQ, '__CPROVER_old(%s)' % REQ)])),
             ['C02', 'C06', 'C16', 'C18']),
    ctl_unit('cancelPendingTransition', r'^ffsm2::detail::GuardControlT<', 'cancelPendingTransition', 0, 'GuardControlT__cancelPendingTransition', dict(
        requires_target=[fresh('self'), fresh('self->_b0._b0._b0._b0._core', '*self->_b0._b0._b0._b0._core'),
                         '(self->_b0._b0._b0._b0._core->logger == (void*)0 || __CPROVER_is_fresh(self->_b0._b0._b0._b0._core->logger, sizeof(*self->_b0._b0._b0._b0._core->logger)))',
                         '(self->_b0._b0._b0._b0._core->context == (void*)0 || __CPROVER_is_fresh(self->_b0._b0._b0._b0._core->context, sizeof(*self->_b0._b0._b0._b0._core->context)))'],
        requires=['g_clock < ' + BIG],
        assigns=['self->_cancelled'] + REC_ASSIGNS,
        ensures=[('C03', 'self->_cancelled')] + logged(2, 'self->_b0._b0._b0._b0._originId', '0', 'self->_b0._b0._b0._b0._core->logger')),
             # C02 / C07: a veto leaves the guard's own request (and its payload) alone -- the request is not in the frame
             ['C03', 'C02', 'C07', 'C16', 'C18']),
]

# ---- payload carriers (C07): the bytes of the payload travel with the transition
PSZ = 'sizeof(self->storage)'
BYTE_EQ = lambda tr: '%s.storage[g_j] == ((const uint8_t*)payload)[g_j]' % tr
GJ = ['uint8_t g_j;   /* arbitrary payload byte index */']
T_RECS = {'TransitionT': r'^ffsm2::detail::TransitionT<int>$', 'TransitionBase': r'^ffsm2::detail::TransitionBase$'}
def t_unit(id_, nparams, sig, fn, contract, **kw):
    u = dict(id='control.TransitionT.' + id_, witness=W, recs=T_RECS, props=['C07', 'C18'], ghost=GJ,
             target=dict(cls=r'^ffsm2::detail::TransitionT<int>$', kind='ctor', name='TransitionT', nparams=nparams, sig=sig), contracts={fn: contract},
             bounded='payload type of the witness (int, 4 bytes): all values')
    u.update(kw)
    return u
UNITS += [
    t_unit('ctor_dest_payload', 2, r'^void \(const ffsm2::StateID, const', 'TransitionT__ctor2', dict(
        requires=[fresh('self'), fresh('payload'), 'g_j < sizeof(*payload)'], assigns=['*self'],
        ensures=[('C07', 'self->payloadSet && self->_b0.destination == destination_ && self->_b0.origin == 255 && self->_b0.method == Method__NONE'),
                 ('C07', 'self->storage[g_j] == ((const uint8_t*)payload)[g_j]')])),
    t_unit('ctor_origin_dest_payload', 3, r'Payload', 'TransitionT__ctor3', dict(
        requires=[fresh('self'), fresh('payload'), 'g_j < sizeof(*payload)'], assigns=['*self'],
        ensures=[('C07', 'self->payloadSet && self->_b0.destination == destination_ && self->_b0.origin == origin_ && self->_b0.method == Method__NONE'),
                 ('C07', 'self->storage[g_j] == ((const uint8_t*)payload)[g_j]')])),
    t_unit('ctor_default', 0, None, 'TransitionT__ctor0', dict(
        requires=[fresh('self')], assigns=['*self'],
        # a request made without a payload exposes none
        ensures=[('C07,C17', '!self->payloadSet && self->_b0.destination == 255 && self->_b0.origin == 255 && self->_b0.method == Method__NONE')])),
    dict(id='control.TransitionT.ctor_dest', witness=W, recs=T_RECS, props=['C07', 'C02', 'C18'], ghost=GJ,
         target=dict(cls=r'^ffsm2::detail::TransitionT<int>$', kind='ctor', name='TransitionBase', nparams=1, sig=r'^void \(const ffsm2::StateID\)'),
         contracts={'TransitionT__ctor1': dict(requires=[fresh('self')], assigns=['*self'],
                    ensures=[('C07,C17', '!self->payloadSet && self->_b0.destination == {p0} && self->_b0.origin == 255 && self->_b0.method == Method__NONE')])}),
    dict(id='control.TransitionT.ctor_origin_dest', witness=W, recs=T_RECS, props=['C07', 'C02', 'C18'], ghost=GJ,
         target=dict(cls=r'^ffsm2::detail::TransitionT<int>$', kind='ctor', name='TransitionBase', nparams=2, sig=r'^void \(const ffsm2::StateID, const ffsm2::StateID\)'),
         contracts={'TransitionT__ctor2': dict(requires=[fresh('self')], assigns=['*self'],
                    ensures=[('C07,C17', '!self->payloadSet && self->_b0.origin == {p0} && self->_b0.destination == {p1} && self->_b0.method == Method__NONE')])}),
    dict(id='control.TransitionT.payload', witness=W, recs=T_RECS, props=['C07', 'C18'], ghost=GJ,
         target=dict(cls=r'^ffsm2::detail::TransitionT<int>$', name='payload', nparams=0),
         contracts={'TransitionT__payload': dict(requires=[fresh('self')], assigns=[],
                    ensures=[('C07', '__CPROVER_return_value == (self->payloadSet ? (const int*)(const void*)self->storage : (const int*)0)')])}),
]

# FullControl::changeWith / RP_::changeWith
UNITS += [
    ctl_unit('changeWith', r'^ffsm2::detail::FullControlT<', 'changeWith', 2, 'FullControlT__changeWith__2', dict(
        requires_target=[fresh('self'), fresh('self->_b0._b0._b0._core', '*self->_b0._b0._b0._core'), fresh('payload'),
                         '(self->_b0._b0._b0._core->logger == (void*)0 || __CPROVER_is_fresh(self->_b0._b0._b0._core->logger, sizeof(*self->_b0._b0._b0._core->logger)))',
                         '(self->_b0._b0._b0._core->context == (void*)0 || __CPROVER_is_fresh(self->_b0._b0._b0._core->context, sizeof(*self->_b0._b0._b0._core->context)))'],
        requires=['g_clock < ' + BIG, 'g_j < sizeof(*payload)'],
        assigns=['self->_b0._b0._b0._core->request'] + REC_ASSIGNS,
        ensures=with_lock('self->_b0._locked',
                          [('C06,C07,C11', 'self->_b0._b0._b0._core->request._b0.origin == self->_b0._b0._b0._originId && self->_b0._b0._b0._core->request._b0.destination == stateId_ && self->_b0._b0._b0._core->request.payloadSet && self->_b0._b0._b0._core->request._b0.method == Method__NONE'),
                           ('C07', 'self->_b0._b0._b0._core->request.storage[g_j] == ((const uint8_t*)payload)[g_j]')]
                          + logged(1, 'self->_b0._b0._b0._originId', 'stateId_', 'self->_b0._b0._b0._core->logger'),
                          [t_eq('self->_b0._b0._b0._core->request', '__CPROVER_old(self->_b0._b0._b0._core->request)')])),
             ['C02', 'C06', 'C07', 'C16', 'C18'], ghost=GHOST + GJ),
]

# ---- C06: accessors of every control flavour agree with the machine
CSELF = [fresh('self'), fresh('self->_core', '*self->_core')]
def acc(id_, cls, name, fn, ensures, nparams=0, const=None, requires=None, props=None, recs=None, target_req=None):
    tgt = dict(cls=cls, name=name, nparams=nparams)
    if const is not None:
        tgt['const'] = const
    return dict(id='control.' + id_, witness=W, recs=recs or CT_RECS, opaque=OPAQUE, opaque_keep=R_KEEP, props=props or ['C06', 'C18'], target=tgt,
                consts=CONSTS, ghost=GHOST, contracts={'@target': dict(requires_target=target_req or CSELF, requires=requires or [], assigns=[], ensures=ensures)})
CTL_CLS = r'^ffsm2::detail::ControlT<'
CCTL_CLS = r'^ffsm2::detail::ConstControlT<'
ISACTIVE = '__CPROVER_return_value == (%s == {p0})'
UNITS += [
    # for every state id (0 and inactive ids included) control.isActive(id) is what the machine itself reports
    acc('Control.isActive', CTL_CLS, 'isActive', 'ControlT__isActive__1', [('C06,C08', ISACTIVE % 'self->_core->registry.active')], nparams=1, props=['C06', 'C08', 'C18']),
    acc('ConstControl.isActive', CCTL_CLS, 'isActive', 'ConstControlT__isActive__1', [('C06', ISACTIVE % 'self->_core->registry.active')], nparams=1),
    acc('Registry.isActive', r'^ffsm2::detail::Registry$', 'isActive', 'Registry__isActive__1', [('C06,C08', ISACTIVE % 'self->active')], nparams=1, target_req=[fresh('self')], props=['C06', 'C08', 'C18']),
    acc('R_.isActive', r'^ffsm2::detail::R_<', 'isActive', 'R___isActive__1', [('C01,C06', ISACTIVE % 'self->_core.registry.active')], nparams=1, target_req=[fresh('self')], props=['C01', 'C06', 'C18'], recs=R_RECS),
    acc('R_.activeStateId', r'^ffsm2::detail::R_<', 'activeStateId', 'R___activeStateId', [('C01,C06', '__CPROVER_return_value == self->_core.registry.active')], target_req=[fresh('self')], props=['C01', 'C06', 'C18'], recs=R_RECS),
    acc('Control.stateId', CTL_CLS, 'stateId', 'ControlT__stateId__0', [('C06', '__CPROVER_return_value == self->_originId')]),
    acc('ConstControl.stateId', CCTL_CLS, 'stateId', 'ConstControlT__stateId__0', [('C06', '__CPROVER_return_value == self->_originId')]),
    acc('Control.context', CTL_CLS, 'context', 'ControlT__context', [('C06', '__CPROVER_return_value == self->_core->context')], const=False),
    acc('ConstControl.context', CCTL_CLS, 'context', 'ConstControlT__context', [('C06', '__CPROVER_return_value == self->_core->context')]),
    acc('Control.request', CTL_CLS, 'request', 'ControlT__request', [('C06', '__CPROVER_return_value == &self->_core->request')]),
    acc('ConstControl.request', CCTL_CLS, 'request', 'ConstControlT__request', [('C06', '__CPROVER_return_value == &self->_core->request')]),
    acc('GuardControl.pendingTransition', r'^ffsm2::detail::GuardControlT<', 'pendingTransition', 'GuardControlT__pendingTransition',
        [('C06,C02,C07', '__CPROVER_return_value == self->_pendingTransition')], target_req=[fresh('self')]),
    acc('PlanControl.currentTransition', r'^ffsm2::detail::PlanControlT<', 'currentTransition', 'PlanControlT__currentTransition',
        [('C06,C07', '__CPROVER_return_value == self->_currentTransition')], target_req=[fresh('self')]),
]
# scoped origin: the control reports the state whose callback is running, and the previous id afterwards
def origin_units(alias, cls, ctlpath):
    return [
        dict(id='control.%s.ctor' % alias, witness=W, recs=CT_RECS, opaque=OPAQUE, props=['C06', 'C18'], consts=CONSTS, ghost=GHOST,
             target=dict(cls=cls, kind='ctor', name='Origin', nparams=2),
             contracts={'%s__ctor2' % alias: dict(requires=[fresh('self'), fresh('control_')], assigns=['*self', 'control_->_originId'],
                        ensures=[('C06', 'control_->_originId == stateId_ && self->control == control_ && self->prevId == __CPROVER_old(control_->_originId)')])}),
        dict(id='control.%s.dtor' % alias, witness=W, recs=CT_RECS, opaque=OPAQUE, props=['C06', 'C18'], consts=CONSTS, ghost=GHOST,
             target=dict(cls=cls, kind='dtor', name='~Origin', nparams=0),
             contracts={'%s__dtor' % alias: dict(requires=[fresh('self'), fresh('self->control', '*self->control')], assigns=['self->control->_originId'],
                        ensures=[('C06', 'self->control->_originId == self->prevId')])}),
    ]
UNITS += origin_units('Origin', r'^ffsm2::detail::ControlT<.*>::Origin$', '') + origin_units('COrigin', r'^ffsm2::detail::ConstControlT<.*>::Origin$', '')

# ---- the type-based forms of the control / machine API: each forwards to the id-based form with the id of that state type.
# The witness instantiates them for A (id 0), B (1), C (2); the contract is the id-based contract at that id.
def tacc(id_, cls, name, targs, ensures, nparams=0, kw_id=0, **kw):
    u = acc(id_, cls, name, None, ensures, nparams=nparams, **kw)
    u['target'] = dict(u['target'], targs=targs)
    # the id of a state type is computed by template metaprogramming (index<StateList, T>) and reaches the lowered code as
    # the constant Const<N>: taken from the witness instantiation (that ids follow declaration order is C14's skeleton check)
    u['consts'] = dict(u['consts'], Const__N=('value', kw_id))
    return u
UNITS += [
    tacc('Control.isActive_T', CTL_CLS, 'isActive', r'^A$', [('C06,C01', '__CPROVER_return_value == (self->_core->registry.active == 0)')], props=['C06', 'C01', 'C18']),
    tacc('ConstControl.isActive_T', CCTL_CLS, 'isActive', r'^A$', [('C06,C01', '__CPROVER_return_value == (self->_core->registry.active == 0)')], props=['C06', 'C01', 'C18']),
]

# ---- plan(): the view handed to user code refers to the machine's own plan data
PC_CLS = r'^ffsm2::detail::PlanControlT<'
def plan_view(id_, cls, const, core, recs=None, target_req=None, rv=''):
    return dict(id='control.' + id_, witness=W, recs=recs or dict(CT_RECS, PlanT=r'^ffsm2::detail::PlanT<.*>>$', PayloadPlanT=r'^ffsm2::detail::PayloadPlanT<.*>>$', CPlanT=r'^ffsm2::detail::CPlanT<.*>>$', Bounds=r'^ffsm2::detail::Bounds$'),
                opaque=OPAQUE, opaque_keep={'PlanDataT': ['tasksBounds', 'planExists']}, props=['C06', 'C10', 'C18'],
                target=dict(cls=cls, name='plan', nparams=0, const=const), consts=CONSTS, ghost=GHOST,
                contracts={'@target': dict(requires_target=target_req or [fresh('self'), fresh(core, '*' + core)], requires=[], assigns=[],
                                           ensures=[('C06,C10', '__CPROVER_return_value%s._planData == &%s%splanData && __CPROVER_return_value%s._bounds == &%s%splanData.tasksBounds'
                                                     % ((rv, core, '->' if core.endswith('_core') and '->' in core else '.', rv, core, '->' if core.endswith('_core') and '->' in core else '.')))])})
UNITS += [
    # (with a payload type the mutable view is a PayloadPlanT, whose PlanT part is its base sub-object)
    plan_view('PlanControl.plan.PayloadPlan', PC_CLS, False, 'self->_b0._core', rv='._b0'),
    plan_view('PlanControl.plan_c', PC_CLS, True, 'self->_b0._core'),
]

# ---- a control is a *view* of the machine: what it hands out is the machine's own object, not a copy.  Stated as a lemma over
# the real constructor and accessor (bodies, value context, witness -DW_VALCTX), without naming any field of the control, so it
# stays meaningful if the control's layout changes: context() of a control built from a core is that core's context object.
def view_lemma(id_, cls, alias, ctor_nparams, ctor_args):
    return dict(id='control.%s.view' % id_, witness=W, witness_defines=['W_VALCTX'], recs=CT_RECS, opaque=OPAQUE, opaque_keep=R_KEEP, props=['C06', 'C18'],
                target=dict(ghost='lemma_view'), consts=CONSTS, ghost=GHOST,
                also=[dict(cls=cls, kind='ctor', name=alias, nparams=ctor_nparams, mode='body'), dict(cls=cls, name='context', nparams=0, mode='body')],
                ghost_fns={'lemma_view': dict(
                    sig='void lemma_view(struct CoreT *core)',
                    body='{\n\tstruct %s c;\n\t%s__ctor%d(&c, %s);\n\t__CPROVER_assert(%s__context(&c) == &core->context, "context() of a control is the machine\'s own context object");\n}\n'
                         % (alias, alias, ctor_nparams, ctor_args, alias))},
                contracts={'lemma_view': dict(requires=[fresh('core')], assigns=[], ensures=[])})
UNITS += [
    view_lemma('ConstControl', CCTL_CLS, 'ConstControlT', 1, 'core'),
    view_lemma('Control', CTL_CLS, 'ControlT', 1, 'core'),
]
