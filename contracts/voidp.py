"""The payload-free configuration (FFSM2's default: no PayloadT in the Config).

FFSM2 carries separate specialisations for machines without a payload type -- TransitionT<void>, TaskT<void>,
PlanDataT<ArgsT<.., void>>, FullControlT<ArgsT<.., void>> (its own copy of updatePlan) -- and instantiates every other
template a second time.  The units of this module are the units of machine.py / control.py / plans.py / c10.py / c17.py
re-targeted at the witness built with -DW_VOID: same targets, same contracts with the clauses about payloadSet /
storage[] dropped (those members do not exist in the payload-free records).  A unit whose contract still mentions a
payload after that is about the payload API and has no payload-free counterpart.

All of them run in both tiers (about a minute on 16 cores in total).
"""
import copy, re
from contracts.common import *
import contracts.machine as M
import contracts.control as CT
import contracts.plans as PL
import contracts.c10 as C10
import contracts.c17 as C17
import contracts.wrappers as WR

# an lvalue-ish operand: identifiers, member paths, one or two levels of parentheses (e.g. (*p), __CPROVER_old(x.y))
_OP = r'(?:[A-Za-z0-9_.*&{}:]|->|\[[^\]]*\]|\((?:[^()]|\((?:[^()]|\([^()]*\))*\))*\))+'
_M = r'(?:\.|->)'
_SUBS = [
    (re.compile(r'%s%spayloadSet == __CPROVER_old\(%s%spayloadSet\)' % (_OP, _M, _OP, _M)), '1'),
    (re.compile(r'%s%sstorage\[(\d)\] == __CPROVER_old\(%s%sstorage\[\1\]\)' % (_OP, _M, _OP, _M)), '1'),
    (re.compile(r'%s%spayloadSet == %s%spayloadSet' % (_OP, _M, _OP, _M)), '1'),
    (re.compile(r'%s%sstorage\[(\d)\] == %s%sstorage\[\1\]' % (_OP, _M, _OP, _M)), '1'),
    (re.compile(r'!%s%spayloadSet' % (_OP, _M)), '1'),
    # ghost C of contracts/plans.py: payload presence / value of a task or of the request
    (re.compile(r'\(pd->tasks\._items\[slot\]\.payloadSet != 0\)'), '0'),
    (re.compile(r'\*\(const int\*\)\(const void\*\)pd->tasks\._items\[slot\]\.storage'), '0'),
    (re.compile(r'\(core->request\.payloadSet != 0\)'), '0'),
    (re.compile(r'core->request\.payloadSet != g_req0\.payloadSet'), '0'),
    (re.compile(r'\*\(const int\*\)\(const void\*\)core->request\.storage'), '0'),
]
_LEFT = re.compile(r'payloadSet|(?<![_A-Za-z])storage\b|\bpayload\b')


def vtext(s):
    for rx, rep in _SUBS:
        s = rx.sub(rep, s)
    return s


def vrec(p):
    return p.replace('<int>', '<void>').replace('<int,', '<void,')


class NotApplicable(Exception):
    pass


def vmap(x, path=()):
    if isinstance(x, str):
        return vtext(x)
    if isinstance(x, tuple):
        return tuple(vmap(y, path) for y in x)
    if isinstance(x, list):
        return [vmap(y, path) for y in x]
    if isinstance(x, dict):
        return {k: vmap(v, path + (k,)) for k, v in x.items()}
    return x


def leftovers(x):
    if isinstance(x, str):
        return bool(_LEFT.search(re.sub(r'/\*.*?\*/', '', x, flags=re.S)))
    if isinstance(x, (tuple, list)):
        return any(leftovers(y) for y in x)
    if isinstance(x, dict):
        return any(leftovers(v) for v in x.values())
    return False


SPECIALISED = re.compile(r'^(plans\.updatePlan\.|plans\.PlanDataT\.|control\.Transition|control\.changeTo|c17\.CoreT|c10\.tasklist\.emplace$|c10\.plan\.append$|root\.changeTo$|root\.processTransitions$)')


def void_unit(u):
    if u.get('witness') != M.W:
        return None
    v = dict(u)
    v['id'] = u['id'] + '.void'
    v['witness_defines'] = list(u.get('witness_defines', [])) + ['W_VOID']
    v['recs'] = {k: vrec(p) for k, p in u.get('recs', {}).items() if k not in ('Payloads', 'PayloadPlanT')}
    t = dict(u['target'])
    if 'cls' in t:
        t['cls'] = vrec(t['cls'])
    v['target'] = t
    v['contracts'] = vmap(copy.deepcopy({k: {kk: vv for kk, vv in c.items()} for k, c in u.get('contracts', {}).items()}))
    v['ghost'] = vmap(list(u.get('ghost', [])))
    if u.get('ghost_fns'):
        v['ghost_fns'] = vmap(copy.deepcopy(u['ghost_fns']))
    if u.get('array_max'):
        v['array_max'] = {k: n for k, n in u['array_max'].items() if not k.startswith('Payloads.')}
    if leftovers(v['contracts']) or leftovers(v['ghost']) or leftovers(v.get('ghost_fns', {})):
        return None
    # (measured: all payload-free re-instantiations together cost about a minute on 16 cores, so they run in the quick tier too)
    v['tier'] = u.get('tier', 'both')
    if u.get('bounded'):
        v['bounded'] = u['bounded']
    return v


UNITS = []
SKIPPED = []
for mod in (M, CT, PL, C10, C17, WR):
    for u in mod.UNITS:
        if re.search(r'changeWith|payload|Payload', u['id']):
            SKIPPED.append(u['id']); continue
        v = void_unit(u)
        if v is None:
            if u.get('witness') == M.W:
                SKIPPED.append(u['id'])
            continue
        UNITS.append(v)
