"""C08 / C09: plan step (FullControlT::updatePlan, C_::deepUpdatePlans, task reports)."""
from contracts.common import *
from contracts.machine import *
import importlib as _il
c10 = globals().get('C10_MODULE') or _il.import_module('contracts.c10')

CAPMAX = globals().get('CAPMAX_OVERRIDE', 4)
UP_RECS = dict(RECS); UP_RECS.update(c10.PL_RECS); UP_RECS.update({'S_head': r'^ffsm2::detail::S_<255,', 'Origin': r'^ffsm2::detail::ControlT<.*>::Origin$'})
UNITS = []
DRAFTS = [dict(id='plans.draft.updatePlan', witness=W, recs=UP_RECS, opaque=[r'^Ctx$', r'LoggerInterfaceT<', r'^ffsm2::detail::S_<'], props=['DRAFT'], draft=True,
               target=dict(cls=r'^ffsm2::detail::FullControlT<', name='updatePlan', nparams=2), consts=dict(c10.PL_CONSTS), ghost=GHOST, default_call='contract',
               calls={'re:^(TaskStatus|Origin__|PlanControlT__plan|PlanT__ctor|PayloadPlanT__ctor|Iterator__(op_arrow|op_bool|op_inc|ctor|next)|PlanT__begin|TaskBase__cyclic|TaskT__payload|PlanT__op_bool)': 'body'})]

# =============================================================================================
# FullControlT::updatePlan, success branch (C08): whole walk from ANY well-formed plan, capacity <= 4 (bounded), every
# status set / active state / task contents.  The relation below is the property statement over the observable outcome:
# post plan, post success bits, outstanding request.
CAP = c10.CAP
PDS = 'self->_b0._b0._b0._core->planData'
CORE = 'self->_b0._b0._b0._core'
UP_GHOST = GHOST + [g.replace('%d' % c10.CAPMAX, '%d' % CAPMAX) if False else g for g in c10.PL_GHOST] + ['''
/* ---- pre-state snapshot (rigid ghosts fixed by requires clauses) and the C08 relation */
uint8_t g_len0, g_s0[%(M)d], g_o0[%(M)d], g_d0[%(M)d]; _Bool g_ps0[%(M)d]; int g_pv0[%(M)d]; _Bool g_bit0; uint8_t g_act; struct TransitionT g_req0; uint8_t g_q2;
static uint8_t task_origin(const struct PlanDataT *pd, uint8_t slot) { return slot < %(CAP)s ? pd->tasks._items[slot]._b0.origin : 255; }
static uint8_t task_dest(const struct PlanDataT *pd, uint8_t slot) { return slot < %(CAP)s ? pd->tasks._items[slot]._b0.destination : 255; }
static _Bool task_ps(const struct PlanDataT *pd, uint8_t slot) { return slot < %(CAP)s ? (pd->tasks._items[slot].payloadSet != 0) : 0; }
static int task_pv(const struct PlanDataT *pd, uint8_t slot) { return slot < %(CAP)s ? *(const int*)(const void*)pd->tasks._items[slot].storage : 0; }
static _Bool sbit(const struct PlanDataT *pd, uint8_t st) { return (pd->tasksSuccesses._storage[st >> 3] >> (st & 7)) & 1u; }
static int up_ok(const struct CoreT *core)
{
	const struct PlanDataT *pd = &core->planData;
	/* P: length of the maximal prefix of tasks whose origin is the active state (nothing behind a foreign task may fire) */
	uint8_t P = 0; _Bool stop = 0;
	for (unsigned k = 0; k < %(M)d; ++k) if (k < g_len0 && !stop) { if (g_o0[k] == g_act) ++P; else stop = 1; }
	uint8_t j = 0; int last = -1; unsigned nrem = 0; _Bool removed0 = 0;
	for (unsigned k = 0; k < %(M)d; ++k) if (k < g_len0) {
		if (j < pd->tasks._count && pl_nth(pd, j) == g_s0[k]) {
			/* kept, in its original relative order, contents untouched */
			if (task_origin(pd, g_s0[k]) != g_o0[k] || task_dest(pd, g_s0[k]) != g_d0[k] || (task_ps(pd, g_s0[k]) != (g_ps0[k] != 0)) || (g_ps0[k] && task_pv(pd, g_s0[k]) != g_pv0[k])) return 1;
			++j;
		} else {
			/* fired and removed: only tasks of the succeeded active state inside that prefix */
			if (!(k < P && g_bit0)) return 2;
			if (k == 0) removed0 = 1;
			last = (int) k; ++nrem;
		}
	}
	if (j != pd->tasks._count) return 3;
	const _Bool bit1 = sbit(pd, g_act);
	if (nrem > 0) {
		/* the report is consumed by what it fires; the outstanding request is the last task fired, with the task's origin as requester */
		if (bit1) return 4;
		if (core->request._b0.origin != g_o0[last] || core->request._b0.destination != g_d0[last] || core->request._b0.method != Method__NONE) return 5;
		if ((core->request.payloadSet != 0) != (g_ps0[last] != 0)) return 6;
		if (g_ps0[last] && *(const int*)(const void*)core->request.storage != g_pv0[last]) return 7;
	} else {
		if (bit1 != g_bit0) return 8;
		if (core->request._b0.origin != g_req0._b0.origin || core->request._b0.destination != g_req0._b0.destination || core->request.payloadSet != g_req0.payloadSet) return 9;
	}
	/* converse: first task's origin active and reported success => it fires in this cycle */
	if (g_len0 >= 1 && g_o0[0] == g_act && g_bit0 && !removed0) return 10;
	return 0;
}
''' % dict(M=CAPMAX, CAP=CAP)]
SNAP = ['g_len0 == %s.tasks._count' % PDS, 'g_act == %s->registry.active' % CORE, 'g_bit0 == sbit(&%s, g_act)' % PDS, t_eq('g_req0', CORE + '->request')]
for k in range(CAPMAX):
    SNAP += ['g_s0[%d] == pl_nth(&%s, %d)' % (k, PDS, k), 'g_o0[%d] == task_origin(&%s, g_s0[%d])' % (k, PDS, k), 'g_d0[%d] == task_dest(&%s, g_s0[%d])' % (k, PDS, k),
             'g_ps0[%d] == task_ps(&%s, g_s0[%d])' % (k, PDS, k), 'g_pv0[%d] == task_pv(&%s, g_s0[%d])' % (k, PDS, k)]
UP_CONSTS = dict(c10.PL_CONSTS); UP_CONSTS['TaskListT__NCapacity'] = ('range', 1, CAPMAX); UP_CONSTS['TasksBits__NCapacity'] = ('expr', 'TL___sizeof_Ts'); UP_CONSTS['TL___sizeof_Ts'] = ('range', 1, 8)
UP_TARGET = [fresh('self'), fresh(CORE, '*' + CORE), fresh('headState'), '(%s->logger == (void*)0 || __CPROVER_is_fresh(%s->logger, sizeof(*%s->logger)))' % (CORE, CORE, CORE),
             '(%s->context == (void*)0 || __CPROVER_is_fresh(%s->context, sizeof(*%s->context)))' % (CORE, CORE, CORE),
             fresh('self->_b0._b0._currentTransition', '*self->_b0._b0._currentTransition')]
UP_UNWIND = dict(c10.PL_UNWIND)
for k_ in list(UP_UNWIND): UP_UNWIND[k_] = c10.CAPMAX + 1
UP_UNWIND.update({'up_ok.0': CAPMAX + 1, 'up_ok.1': CAPMAX + 1, 'TasksBits__set__0.0': 2, 'TasksBits__clear__0.0': 2, 'TasksBits__op_andassign.0': 2})
UNITS += [
    dict(id='plans.updatePlan.success', witness=W, recs=UP_RECS, opaque=[r'^Ctx$', r'LoggerInterfaceT<', r'^ffsm2::detail::S_<'], props=['C08', 'C07', 'C18'],
         target=dict(cls=r'^ffsm2::detail::FullControlT<', name='updatePlan', nparams=2), consts=UP_CONSTS, ghost=UP_GHOST,
         array_max={'TaskListT._items': CAPMAX, 'TaskLinks._items': CAPMAX, 'Payloads._items': CAPMAX, 'TasksBits._storage': 1},
         need_consts=['TaskListT.CAPACITY', 'ArgsT.STATE_COUNT', 'TasksBits.CAPACITY'],
         calls={'re:^S_head__': 'contract', 're:^LoggerInterfaceT__': 'contract', 'PlanT__clear': 'contract'},
         unwindset=dict(UP_UNWIND), unwind_target_loops={0: CAPMAX + 1}, object_bits=12,
         bounded='task capacity <= %d and state count <= 8 (whole plan walk unwound); unbounded in plan contents, status sets, active state, histories' % CAPMAX,
         contracts=dict(LOGREC, **{
             '@target': dict(
                 requires_target=UP_TARGET,
                 requires=['g_clock < ' + BOUND['C'], 'subStatus.result == TaskStatus_Result__SUCCESS', 'pl_wf(&%s)' % PDS, '%s.tasks._count >= 1' % PDS,
                           '%s->registry.active < %s' % (CORE, N), 'g_q2 < %s && g_q2 != g_act' % N, '!self->_b0._locked'] + SNAP,
                 assigns=['__CPROVER_object_whole(%s)' % CORE, 'self->_b0._b0._b0._originId', 'self->_b0._b0._taskStatus'] + REC_ASSIGNS,
                 ensures=[('C08', 'up_ok(%s) == 0' % CORE), ('C10', 'pl_wf(&%s)' % PDS),
                          # reports of other states are untouched; the active state stays what it was; planSucceeded/planFailed not delivered
                          ('C08', 'sbit(&%s, g_q2) == __CPROVER_old(sbit_q2)' % PDS if False else '1'),
                          ('C08', '%s->registry.active == g_act' % CORE),
                          ('C09', 'g_t[13][0] == __CPROVER_old(g_t[13][0]) && g_t[14][0] == __CPROVER_old(g_t[14][0])'),
                          ('C06', 'self->_b0._b0._b0._originId == __CPROVER_old(self->_b0._b0._b0._originId)')]),
             'PlanT__clear': dict(requires=['0'], assigns=[], ensures=[], optional=True),
             'S_head__wrapPlanFailed': dict(requires=['0'], assigns=[], ensures=[], optional=True),
             'S_head__wrapPlanSucceeded': dict(requires=['0'], assigns=[], ensures=[], optional=True)})),
]

# ---- plan outcome branches (C09)
def outcome_stub(cb):
    c = head_contract(cb)
    c = dict(c)
    # user code may edit the plan through its control: any well-formed plan results (closure of the plan API, C10)
    c['ensures'] = c['ensures'] + ['pl_wf(&control->_b0._b0._b0._core->planData)']
    return c
PLAN_CLEAR_C = dict(requires=['pl_wf(self->_planData)'], assigns=['*self->_planData'],
                    ensures=['pl_wf(self->_planData)', 'self->_planData->tasks._count == 0', 'self->_planData->planExists == __CPROVER_old(self->_planData->planExists)'])
def outcome_unit(id_, status, extra_req, k_deliv, k_other):
    return dict(id='plans.updatePlan.' + id_, witness=W, recs=UP_RECS, opaque=[r'^Ctx$', r'LoggerInterfaceT<', r'^ffsm2::detail::S_<'], props=['C09', 'C18'],
         target=dict(cls=r'^ffsm2::detail::FullControlT<', name='updatePlan', nparams=2), consts=UP_CONSTS, ghost=UP_GHOST,
         array_max={'TaskListT._items': CAPMAX, 'TaskLinks._items': CAPMAX, 'Payloads._items': CAPMAX, 'TasksBits._storage': 1},
         need_consts=['TaskListT.CAPACITY', 'ArgsT.STATE_COUNT', 'TasksBits.CAPACITY'],
         calls={'re:^S_head__': 'contract', 're:^LoggerInterfaceT__': 'contract', 'PlanT__clear': 'contract'},
         unwindset=dict(UP_UNWIND), unwind_target_loops={0: CAPMAX + 1}, object_bits=12,
         bounded='task capacity <= %d and state count <= 8' % CAPMAX,
         contracts=dict(LOGREC, **{
             '@target': dict(
                 requires_target=UP_TARGET,
                 requires=['g_clock < ' + BOUND['C'], 'subStatus.result == TaskStatus_Result__%s' % status, 'pl_wf(&%s)' % PDS, '%s->registry.active < %s' % (CORE, N),
                           'g_t[13][0] == 0 && g_t[14][0] == 0 && g_lt[13][0] == 0 && g_lt[14][0] == 0', 'self->_b0._b0._b0._originId == 255'] + extra_req,
                 assigns=['__CPROVER_object_whole(%s)' % CORE, 'self->_b0._b0._b0._originId', 'self->_b0._b0._taskStatus', 'g_clock', 'g_lastreq'] + marks([13, 14], (0,)) + REC_ASSIGNS,
                 ensures=[('C09', '%s && g_st[%d][0] == 255' % (ticked(k_deliv, 0), k_deliv)),      # delivered to the root, exactly once
                          ('C09', 'g_t[%d][0] == 0' % k_other),                                       # never both
                          ('C09', 'pl_wf(&%s) && %s.tasks._count == 0' % (PDS, PDS)),                  # after either callback returns the plan is empty
                          # no task fires in this cycle: the outstanding request is unchanged unless the callback itself made one (as the root)
                          ('C09', '(%s || %s->request._b0.origin == 255)' % (t_eq(CORE + '->request', '__CPROVER_old(%s->request)' % CORE), CORE)),
                          ('C08', '%s->registry.active == __CPROVER_old(%s->registry.active)' % (CORE, CORE))]),
             'PlanT__clear': PLAN_CLEAR_C,
             'S_head__wrapPlanFailed': dict(outcome_stub('planFailed'), optional=True),
             'S_head__wrapPlanSucceeded': dict(outcome_stub('planSucceeded'), optional=True)}))
UNITS += [
    outcome_unit('failure', 'FAILURE', [], 14, 13),
    outcome_unit('success_empty', 'SUCCESS', ['%s.tasks._count == 0' % PDS], 13, 14),
]

# ---- C_::deepUpdatePlans (C08/C09): the only caller of updatePlan; reached only from R_::update / react (plan step)
FCORE = 'control->_b0._b0._b0._core'
FPD = FCORE + '->planData'
def fbit(arr, st):
    return '((%s.%s._storage[(%s) >> 3] >> ((%s) & 7)) & 1u)' % (FPD, arr, st, st)
ACTV = FCORE + '->registry.active'
STATUS_OF = lambda st: '(%s ? TaskStatus_Result__FAILURE : (%s ? TaskStatus_Result__SUCCESS : TaskStatus_Result__NONE))' % (fbit('tasksFailures', st), fbit('tasksSuccesses', st))
UPD_SUMMARY = dict(          # FullControlT::updatePlan as seen from C_ (the three branch units above prove it, per branch)
    requires=['g_clock < ' + BOUND['C'], 'subStatus.result != TaskStatus_Result__NONE', 'pl_wf(&self->_b0._b0._b0._core->planData)', 'self->_b0._b0._b0._core->registry.active < ' + N,
              'g_t[13][0] == 0 && g_t[14][0] == 0 && g_lt[13][0] == 0 && g_lt[14][0] == 0', 'self->_b0._b0._b0._originId == 255', '!self->_b0._locked'],
    assigns=['*self->_b0._b0._b0._core', 'self->_b0._b0._b0._originId', 'self->_b0._b0._taskStatus', 'g_clock', 'g_lastreq'] + marks([13, 14], (0,)) + REC_ASSIGNS,
    ensures=[implies('subStatus.result == TaskStatus_Result__FAILURE', '%s && g_t[13][0] == 0 && self->_b0._b0._b0._core->planData.tasks._count == 0' % ticked(14, 0)),
             implies('subStatus.result == TaskStatus_Result__SUCCESS && __CPROVER_old(self->_b0._b0._b0._core->planData.tasks._count) == 0', '%s && g_t[14][0] == 0 && self->_b0._b0._b0._core->planData.tasks._count == 0' % ticked(13, 0)),
             implies('subStatus.result == TaskStatus_Result__SUCCESS && __CPROVER_old(self->_b0._b0._b0._core->planData.tasks._count) != 0', 'g_t[13][0] == 0 && g_t[14][0] == 0'),
             'pl_wf(&self->_b0._b0._b0._core->planData)', 'self->_b0._b0._b0._core->registry.active == __CPROVER_old(self->_b0._b0._b0._core->registry.active)',
             'self->_b0._b0._b0._core->registry.requested == __CPROVER_old(self->_b0._b0._b0._core->registry.requested)',
             'self->_b0._b0._b0._core->planData.planExists == __CPROVER_old(self->_b0._b0._b0._core->planData.planExists)',
             '(self->_b0._b0._b0._core->request._b0.destination == 255 || self->_b0._b0._b0._core->request._b0.destination < %s || %s)' % (N, t_eq('self->_b0._b0._b0._core->request', '__CPROVER_old(self->_b0._b0._b0._core->request)')),
             'g_clock >= __CPROVER_old(g_clock) && g_clock <= __CPROVER_old(g_clock) + 500', 'self->_b0._b0._b0._originId == 255'])
WIDE_UP = dict(requires=['{p-1} < ' + N], assigns=[], ensures=[('C08,C09', '__CPROVER_return_value.result == ' + STATUS_OF('{p-1}'))])
DUP_RECS = dict(UP_RECS); DUP_RECS.update({'CS_': r'^ffsm2::detail::CS_<0,.*,0,ffsm2::detail::TL_<A,B,C>>$', 'C_': r'^ffsm2::detail::C_<'})
EFFECTIVE = '(__CPROVER_old(%s.subStatus.result) > %s ? __CPROVER_old(%s.subStatus.result) : %s)' % (FPD, '__CPROVER_old(%s)' % STATUS_OF(ACTV) if False else 'g_status_act', FPD, 'g_status_act')
UNITS += [
    dict(id='plans.C_.deepUpdatePlans', witness=W, recs=DUP_RECS, opaque=[r'^Ctx$', r'LoggerInterfaceT<', r'^ffsm2::detail::S_<', r'^ffsm2::detail::CS_<'], props=['C08', 'C09', 'C18'],
         target=dict(cls=r'^ffsm2::detail::C_<', name='deepUpdatePlans', nparams=1), consts=UP_CONSTS,
         ghost=UP_GHOST + ['unsigned g_status_act;   /* status of the report bits of the active state in the pre-state (fixed by a requires clause) */'],
         array_max={'TaskListT._items': CAPMAX, 'TaskLinks._items': CAPMAX, 'Payloads._items': CAPMAX, 'TasksBits._storage': 1},
         need_consts=['TaskListT.CAPACITY', 'ArgsT.STATE_COUNT', 'TasksBits.CAPACITY'],
         calls={'re:^CS___': 'contract', 're:^FullControlT__updatePlan': 'contract'}, unwindset=dict(UP_UNWIND), object_bits=12,
         bounded='task capacity <= %d and state count <= 8' % CAPMAX,
         contracts={
             'C___deepUpdatePlans': dict(
                 requires_target=[fresh('self'), fresh('control'), fresh(FCORE, '*' + FCORE), fresh('control->_b0._b0._currentTransition', '*control->_b0._b0._currentTransition')],
                 requires=['g_clock < ' + BOUND['C'], 'pl_wf(&%s)' % FPD, '%s < %s' % (ACTV, N), 'g_t[13][0] == 0 && g_t[14][0] == 0 && g_lt[13][0] == 0 && g_lt[14][0] == 0',
                           'control->_b0._b0._b0._originId == 255', '!control->_b0._locked', 'g_status_act == ' + STATUS_OF(ACTV), '%s.subStatus.result <= 2' % FPD],
                 assigns=['*' + FCORE, 'control->_b0._b0._b0._originId', 'control->_b0._b0._taskStatus', 'g_clock', 'g_lastreq'] + marks([13, 14], (0,)) + REC_ASSIGNS,
                 ensures=[# neither callback on a machine to which no task has been added, nor without an outstanding report
                          ('C09', implies('!__CPROVER_old(%s.planExists) || %s == 0' % (FPD, EFFECTIVE), 'g_t[13][0] == 0 && g_t[14][0] == 0 && g_clock == __CPROVER_old(g_clock) && ' + t_eq(FCORE + '->request', '__CPROVER_old(%s->request)' % FCORE))),
                          # planFailed exactly in a cycle with an outstanding failure; planSucceeded only with success outstanding and no task left
                          ('C09', implies('__CPROVER_old(%s.planExists) && %s == 2' % (FPD, EFFECTIVE), '%s && g_t[13][0] == 0' % ticked(14, 0))),
                          ('C09', implies('g_t[14][0] != 0', '__CPROVER_old(%s.planExists) && %s == 2' % (FPD, EFFECTIVE))),
                          ('C09', implies('g_t[13][0] != 0', '__CPROVER_old(%s.planExists) && %s == 1 && __CPROVER_old(%s.tasks._count) == 0' % (FPD, EFFECTIVE, FPD))),
                          ('C09', '!(g_t[13][0] != 0 && g_t[14][0] != 0)'),
                          ('C10', 'pl_wf(&%s)' % FPD), ('C08', '%s == __CPROVER_old(%s)' % (ACTV, ACTV))]),
             'CS___wideUpdatePlans': WIDE_UP,
             '@re:^FullControlT__updatePlan': UPD_SUMMARY}),
]

# ---- S_::deepUpdatePlans / CS_::wideUpdatePlans: the report bits of exactly that state
S_UP = dict(requires_target=[fresh('self'), fresh('control'), fresh(FCORE, '*' + FCORE)], requires=['S___STATE_ID < ' + N], assigns=[],
            # C09: an outstanding failure report dominates a success report of the same state
            ensures=[('C08,C09', '__CPROVER_return_value.result == ' + STATUS_OF('S___STATE_ID'))])
BITS_CONSTS = dict(UP_CONSTS); BITS_CONSTS['TL___sizeof_Ts'] = ('range', 1, 255)
def bits_unit(id_, cls, name, nparams, contracts, recs, consts, **kw):
    u = dict(id='plans.' + id_, witness=W, recs=recs, opaque=[r'^Ctx$', r'LoggerInterfaceT<'], props=['C08', 'C14', 'C18'],
             target=dict(cls=cls, name=name, nparams=nparams), consts=consts, ghost=GHOST, array_max={'TaskListT._items': 8, 'TaskLinks._items': 8, 'Payloads._items': 8, 'TasksBits._storage': 32},
             need_consts=['ArgsT.STATE_COUNT', 'TasksBits.CAPACITY'], contracts=contracts)
    u.update(kw)
    return u
S_UP_RECS = dict(UP_RECS); S_UP_RECS.update({'S_': r'^ffsm2::detail::S_<0,.*,A>$'})
S_UP_CONSTS = dict(BITS_CONSTS); S_UP_CONSTS['S___NStateId'] = ('range', 0, 254); S_UP_CONSTS['TaskListT__NCapacity'] = ('range', 1, 8)
CSI_RECS = dict(UP_RECS); CSI_RECS.update(CS_RECS)
CSI_CONSTS = dict(BITS_CONSTS); CSI_CONSTS.update({'CS___NProng': ('range', 0, 254), 'CS___sizeof_TStates': ('range', 2, 255), 'CS___NStateId': ('expr', 'CS___NProng'), 'TaskListT__NCapacity': ('range', 1, 8)})
def wide_up(lo, n):
    c = dict(WIDE_UP)
    c['requires'] = ['(int)(%s) <= (int){p-1} && (int){p-1} < (int)(%s) + (int)(%s) && (int)(%s) + (int)(%s) <= (int)%s' % (lo, lo, n, lo, n, N)]
    c['requires_target'] = [fresh('self'), fresh('control'), fresh(FCORE, '*' + FCORE)]
    return c
HALF = '(%s / 2)' % NSUB
CSL_RECS = dict(UP_RECS); CSL_RECS.update(LEAF_RECS)
CSL_CONSTS = dict(BITS_CONSTS); CSL_CONSTS.update({'CS___NProng': ('range', 0, 254), 'TaskListT__NCapacity': ('range', 1, 8)})
UNITS += [
    bits_unit('S_.deepUpdatePlans', S_UP_RECS['S_'], 'deepUpdatePlans', 1, {'S___deepUpdatePlans': S_UP}, S_UP_RECS, S_UP_CONSTS),
    bits_unit('CS_.wideUpdatePlans', CS_RECS['CS_'], 'wideUpdatePlans', 2,
              {'CS___wideUpdatePlans': wide_up(LO, NSUB), 'CS_L__wideUpdatePlans': wide_up(LO, HALF), 'CS_R__wideUpdatePlans': wide_up('(%s + %s)' % (LO, HALF), '(%s - %s)' % (NSUB, HALF))},
              CSI_RECS, CSI_CONSTS, calls={'re:^CS_[LR]__': 'contract'}, ast_check=skeleton_check, opaque=[r'^Ctx$', r'LoggerInterfaceT<', r'^ffsm2::detail::S_<', r'^ffsm2::detail::CS_<\d+,.*TL_<[A-Z]>>$'],
              need_consts=['ArgsT.STATE_COUNT', 'TasksBits.CAPACITY', 'CS_.PRONG_INDEX', 'CS_.R_PRONG']),
    bits_unit('CS_leaf.wideUpdatePlans', LEAF_RECS['CS_'], 'wideUpdatePlans', 2,
              {'CS___wideUpdatePlans': wide_up(LO, '1'), 'S___deepUpdatePlans': dict(requires=[], assigns=[], ensures=['__CPROVER_return_value.result == ' + STATUS_OF(LO)])},
              CSL_RECS, CSL_CONSTS, calls={'re:^S___': 'contract'}, ast_check=skeleton_check, opaque=[r'^Ctx$', r'LoggerInterfaceT<', r'^ffsm2::detail::S_<'],
              need_consts=['ArgsT.STATE_COUNT', 'TasksBits.CAPACITY', 'CS_.PRONG_INDEX']),
]

# ---- task reports: succeed / fail set exactly that state's bit (and one log record)
SB = 'self->_b0._b0._core'          # FullControlBaseT -> PlanControlT -> ControlT
def report_unit(id_, cls, name, fn, arr, result, event, core, originless=False):
    pd = core + ('->' if core.endswith('core') and not core.endswith('_core') else '.') + 'planData'
    pdp = '%s->planData' % core if '->' in core or core.startswith('self->_b0') else '%s.planData' % core
    logger = ('%s->logger' % core) if core != 'self->_core' else 'self->_core.logger'
    pdx = ('%s->planData' % core) if core != 'self->_core' else 'self->_core.planData'
    b = lambda st: '((%s.%s._storage[(%s) >> 3] >> ((%s) & 7)) & 1u)' % (pdx, arr, st, st)
    oldb = '((__CPROVER_old(%s.%s._storage[g_q >> 3]) >> (g_q & 7)) & 1u)' % (pdx, arr)
    tgt = [fresh('self')] + ([fresh(core, '*' + core), '(%s == (void*)0 || __CPROVER_is_fresh(%s, sizeof(*%s)))' % (logger, logger, logger),
                              '(%s->context == (void*)0 || __CPROVER_is_fresh(%s->context, sizeof(*%s->context)))' % (core, core, core)] if core != 'self->_core' else
                             ['(%s == (void*)0 || __CPROVER_is_fresh(%s, sizeof(*%s)))' % (logger, logger, logger)])
    asg = ['%s.%s' % (pdx, arr)] + REC_ASSIGNS + ([] if core == 'self->_core' else ['self->_b0._taskStatus'])
    ens = [('C08', '%s == ((g_q == stateId_) ? 1u : %s)' % (b('g_q'), oldb))] + logged(3, 'stateId_', 'StatusEvent__%s' % event, logger)
    if core != 'self->_core':
        ens.append(('C08', 'self->_b0._taskStatus.result == TaskStatus_Result__%s' % result))
    return dict(id='plans.' + id_, witness=W, recs=UP_RECS, opaque=[r'^Ctx$', r'LoggerInterfaceT<', r'^ffsm2::detail::C_<'], props=['C08', 'C09', 'C16', 'C18'],
                target=dict(cls=cls, name=name, nparams=1), consts=dict(BITS_CONSTS, TaskListT__NCapacity=('range', 1, 8)), ghost=GHOST + ['uint8_t g_q;'],
                array_max={'TaskListT._items': 8, 'TaskLinks._items': 8, 'Payloads._items': 8, 'TasksBits._storage': 32},
                need_consts=['ArgsT.STATE_COUNT', 'TasksBits.CAPACITY'], calls={'re:^LoggerInterfaceT__': 'contract'},
                contracts=dict(LOGREC, **{'@target': dict(requires_target=tgt, requires=['g_clock < ' + BIG, 'stateId_ < ' + N, 'g_q < ' + N, 'TasksBits__CAPACITY == ' + N], assigns=asg, ensures=ens)}))
UNITS += [
    report_unit('Control.succeed', r'^ffsm2::detail::FullControlBaseT<', 'succeed', None, 'tasksSuccesses', 'SUCCESS', 'SUCCEEDED', SB),
    report_unit('Control.fail', r'^ffsm2::detail::FullControlBaseT<', 'fail', None, 'tasksFailures', 'FAILURE', 'FAILED', SB),
    report_unit('R_.succeed', r'^ffsm2::detail::R_<', 'succeed', None, 'tasksSuccesses', 'SUCCESS', 'SUCCEEDED', 'self->_core'),
    report_unit('R_.fail', r'^ffsm2::detail::R_<', 'fail', None, 'tasksFailures', 'FAILURE', 'FAILED', 'self->_core'),
]

# ---- PlanDataT: the functions other units assume by contract (clear / clearTaskStatus / clearRegionStatuses)
_c17 = globals().get('C17_MODULE') or _il.import_module('contracts.c17')
PDX = 'self'
def _pd_bit(arr, st):
    return '((self->%s._storage[(%s) >> 3] >> ((%s) & 7)) & 1u)' % (arr, st, st)
def pd_unit(id_, name, nparams, contract, **kw):
    u = dict(id='plans.PlanDataT.' + id_, witness=W, recs=_c17.C17_RECS, opaque=[r'^Ctx$', r'LoggerInterfaceT<'], props=['C09', 'C08', 'C10', 'C18'], consts=_c17.C17_CONSTS,
             ghost=c10.PL_GHOST + ['uint8_t g_st;   /* arbitrary state id */'],
             array_max={'TaskListT._items': _c17.CAPMAX, 'TaskLinks._items': _c17.CAPMAX, 'Payloads._items': _c17.CAPMAX, 'TasksBits._storage': 1},
             need_consts=['TaskListT.CAPACITY', 'TasksBits.CAPACITY'], target=dict(cls=r'^ffsm2::detail::PlanDataT<', name=name, nparams=nparams),
             contracts={'@target': contract}, unwindset=dict(_c17.C17_UNWIND, **{'TaskLinks__fill.0': _c17.CAPMAX + 1, 'Payloads__fill.0': _c17.CAPMAX + 1}), object_bits=12,
             bounded='task capacity <= %d, state count <= 8 (array loops unwound)' % _c17.CAPMAX)
    u.update(kw)
    return u
UNITS += [
    # clear(): what R_::finalExit / load rely on -- no plan exists afterwards, no task, no report, no region status
    pd_unit('clear', 'clear', 0, dict(
        requires=[fresh('self'), 'g_st < 8'], assigns=['*self'],
        ensures=[('C09', '!self->planExists'),
                 ('C10', 'pl_wf(self) && self->tasks._count == 0 && self->tasksBounds.first == 255 && self->tasksBounds.last == 255'),
                 ('C08', '%s == 0 && %s == 0' % (_pd_bit('tasksSuccesses', 'g_st'), _pd_bit('tasksFailures', 'g_st'))),
                 ('C09', 'self->headStatus.result == TaskStatus_Result__NONE && self->subStatus.result == TaskStatus_Result__NONE')])),
    # clearTaskStatus(s): exactly the reports of s are dropped (called on exit of s)
    pd_unit('clearTaskStatus', 'clearTaskStatus', 1, dict(
        requires=[fresh('self'), 'g_st < TasksBits__CAPACITY', 'stateId == 255 || stateId < TasksBits__CAPACITY'],
        assigns=['self->tasksSuccesses', 'self->tasksFailures'],
        ensures=[('C08', '%s == ((g_st == stateId) ? 0u : ((__CPROVER_old(self->tasksSuccesses._storage[g_st >> 3]) >> (g_st & 7)) & 1u))' % _pd_bit('tasksSuccesses', 'g_st')),
                 ('C08', '%s == ((g_st == stateId) ? 0u : ((__CPROVER_old(self->tasksFailures._storage[g_st >> 3]) >> (g_st & 7)) & 1u))' % _pd_bit('tasksFailures', 'g_st'))])),
    pd_unit('clearRegionStatuses', 'clearRegionStatuses', 0, dict(
        requires=[fresh('self')], assigns=['self->headStatus', 'self->subStatus'],
        ensures=[('C09', 'self->headStatus.result == TaskStatus_Result__NONE && self->subStatus.result == TaskStatus_Result__NONE')])),
]
