#!/usr/bin/env python3
"""Replay of failed obligations against the real code (see DESIGN.md section 2.5).

make_replay() writes the replay file: failed obligations, verifier output (trace excerpt) and, when a
native reproduction on /repo's headers succeeds, the concrete failing scenario.  Returns True iff a
failing input was reproduced on the real code."""
import json, os, subprocess, sys, tempfile, shutil

HERE = os.path.dirname(os.path.abspath(__file__))
REPO = os.environ.get('FFSM2_REPO', '/repo')


def make_replay(prop, violations, path, work):
    doc = {'property': prop, 'failed_obligations': violations, 'reproduced': False, 'scenario': None}
    found = False
    try:
        import replay_native
        found, scenario = replay_native.search(prop, violations, work)
        doc['reproduced'] = bool(found)
        doc['scenario'] = scenario
    except ImportError:
        doc['note'] = 'no native replay driver for this property yet'
    except Exception as e:
        doc['note'] = 'native replay failed to run: %s' % e
    with open(path, 'w') as f:
        json.dump(doc, f, indent=1)
    return found


def replay_file(path):
    doc = json.load(open(path))
    print('property %s: %d failed obligation(s)' % (doc['property'], len(doc['failed_obligations'])))
    for v in doc['failed_obligations']:
        print('  unit=%s %s: %s' % (v['unit'], v['obligation'], v['description']))
    if doc.get('scenario'):
        try:
            import replay_native
            return replay_native.rerun(doc)
        except ImportError:
            pass
    print('no native scenario recorded (no-failing-input-found)')
    return 1 if doc['failed_obligations'] else 0
