// Native replay driver for the machine-level properties: a REAL FFSM2 machine built from /repo's header whose
// callbacks execute a script (one decision per callback invocation).  The driver enumerates scripts depth-first
// (bounded number of decision points) and evaluates the property's oracle on the observed trace.  It is only used
// to turn a failed CBMC obligation into a concrete failing input on the real code; it never decides a property.
//
//   -DNS=<3|4>  number of states      -DLIMIT=<n> substitution limit     -DORACLES=<bit mask>    -DDEPTH=<n>
#define FFSM2_ENABLE_PLANS
#define FFSM2_ENABLE_TRANSITION_HISTORY
#define FFSM2_ENABLE_LOG_INTERFACE
#include FFSM2_HEADER
#include <cstdio>
#include <cstdlib>
#include <string>
#include <vector>
#include <ctime>

#ifndef NS
#define NS 3
#endif
#ifndef LIMIT
#define LIMIT 2
#endif
#ifndef DEPTH
#define DEPTH 6
#endif
#ifndef ORACLES
#define ORACLES 0xFFFF
#endif
#ifndef BUDGET_S
#define BUDGET_S 25
#endif
enum { O_PROTOCOL = 1, O_SURVIVOR = 2, O_ROUNDS = 4, O_HISTORY = 8, O_CONTROL = 16, O_PAYLOAD = 32, O_CYCLE = 64, O_LOG = 128 };

using ffsm2::StateID; using ffsm2::INVALID_STATE_ID;
struct Ctx { int tag; };
using Cfg = ffsm2::Config::ContextT<Ctx&>::PayloadT<int>::SubstitutionLimitN<LIMIT>::TaskCapacityN<4>;
using M = ffsm2::MachineT<Cfg>;
struct R; template <int I> struct S;
#if NS == 3
using FSM = M::Root<R, S<0>, S<1>, S<2>>;
#else
using FSM = M::Root<R, S<0>, S<1>, S<2>, S<3>>;
#endif
using Transition = ffsm2::detail::TransitionT<int>;
using PlanControlX = ffsm2::detail::PlanControlT<FSM::Args>;
struct Ev { int x; };

// ---------------------------------------------------------------- script enumeration
static std::vector<int> choice, nopts; static size_t pos;
static int choose(int n) {                      // decision point with n options (0 = "do nothing")
	if (pos >= static_cast<size_t>(DEPTH)) return 0;
	if (pos == choice.size()) { choice.push_back(0); nopts.push_back(n); }
	nopts[pos] = n;
	if (choice[pos] >= n) choice[pos] = 0;
	return choice[pos++];
}
static bool next_script() {
	while (!choice.empty()) {
		if (choice.back() + 1 < nopts.back()) { ++choice.back(); return true; }
		choice.pop_back(); nopts.pop_back();
	}
	return false;
}
// ---------------------------------------------------------------- observation log
static std::string trace;
static std::vector<std::string> errors;
static void note(const std::string& s) { trace += s; trace += ' '; }
static void err(const std::string& s) { errors.push_back(s); }
static std::string num(long v) { return std::to_string(v); }
static const char* kname[] = {"entryGuard", "enter", "reenter", "preUpdate", "update", "postUpdate", "preReact", "react", "postReact", "query", "exitGuard", "exit", "planSucceeded", "planFailed"};
enum K { ENTRY_GUARD, ENTER, REENTER, PRE_UPDATE, UPDATE, POST_UPDATE, PRE_REACT, REACT, POST_REACT, QUERY, EXIT_GUARD, EXIT, PLAN_OK, PLAN_FAIL };

// protocol / step state
static int p_entered = -1; static bool p_root = false;        // C01 protocol state
static int payload_counter;                                   // unique payload values
struct Req { int origin, dest; bool has; int payload; bool any; };
static Req last_request;                                      // the request currently outstanding (as issued by the script)
static Req survivor; static Req evaluating; static bool eval_cancelled; static int rounds; static bool in_step;
static bool round_open;
static void round_close() { if (round_open) { if (!eval_cancelled) survivor = evaluating; round_open = false; } }
static void round_begin() { round_close(); round_open = true; eval_cancelled = false; evaluating = last_request; last_request = Req{}; }
static int step_start_active; static bool activation;
static const Ev* cur_event; static std::vector<int> cycle;    // phase callbacks of the current update()/react()
static std::vector<std::string> logrec;                       // logger records since the last check
struct InstHolder; static int machine_active();   // -2 while no instance is observable (during construction)

static bool same(const Transition& t, const Req& r) {
	if (!r.any) return !t;
	if (t.destination != r.dest) return false;
	if ((t.origin == INVALID_STATE_ID ? -1 : t.origin) != r.origin) return false;
	if (r.has != (t.payload() != nullptr)) return false;
	return !r.has || *t.payload() == r.payload;
}
static std::string show(const Req& r) { return r.any ? ("{" + num(r.origin) + "->" + num(r.dest) + (r.has ? " payload " + num(r.payload) : "") + "}") : "{none}"; }
static std::string show(const Transition& t) { return t ? ("{" + num(t.origin == INVALID_STATE_ID ? -1 : t.origin) + "->" + num(t.destination) + (t.payload() ? " payload " + num(*t.payload()) : "") + "}") : "{none}"; }

template <typename TC> static void request(TC& c, int origin, int which) {
	// which: 1..NS -> changeTo(which-1); NS+1..2NS -> changeWith(which-NS-1, fresh payload)
	if (which <= 0) return;
	if (which <= NS) { c.changeTo(static_cast<StateID>(which - 1)); last_request = Req{origin, which - 1, false, 0, true}; note("req" + show(last_request)); }
	else { int p = ++payload_counter; c.changeWith(static_cast<StateID>(which - NS - 1), p); last_request = Req{origin, which - NS - 1, true, p, true}; note("req" + show(last_request)); }
}
template <typename TC> static void check_control(TC& c, int id, int k) {
	if (!(ORACLES & O_CONTROL)) return;
	const int sid = c.stateId() == INVALID_STATE_ID ? -1 : c.stateId();
	if (sid != id) err(std::string(kname[k]) + " of state " + num(id) + ": control.stateId() reports " + num(sid));
	// the state the machine itself reports as active at this moment
	const int act = machine_active();
	for (int s = 0; s < NS; ++s)
		if (act != -2 && c.isActive(static_cast<StateID>(s)) != (act == s))
			err(std::string(kname[k]) + " of state " + num(id) + ": control.isActive(" + num(s) + ") is " + num(c.isActive(static_cast<StateID>(s))) + " while the machine reports active state " + num(act));
	// the type-based form answers like the id-based one
	{ const bool t[4] = { c.template isActive<S<0>>(), c.template isActive<S<1>>(), c.template isActive<S<2>>(),
#if NS == 4
		c.template isActive<S<3>>()
#else
		false
#endif
	  };
	  for (int s = 0; s < NS; ++s) if (t[s] != c.isActive(static_cast<StateID>(s))) err(std::string(kname[k]) + " of state " + num(id) + ": control.isActive<S<" + num(s) + ">>() is " + num(t[s]) + " but control.isActive(" + num(s) + ") is " + num(c.isActive(static_cast<StateID>(s)))); }
	if (&c.context() == nullptr || c.context().tag != 77) err("control.context() is not the machine's context");
}
static void guard(FSM::GuardControl& c, int id, int k) {
	note(std::string(kname[k]) + num(id));
	check_control(c, id, k);
	// a round starts at the exit guard (processing) or at the root's entry guard (activation)
	if ((activation && k == ENTRY_GUARD && id < 0) || (!activation && k == EXIT_GUARD) || !round_open) round_begin();
	if (ORACLES & O_PAYLOAD) {
		if (!same(c.pendingTransition(), evaluating))
			err(std::string(kname[k]) + " of state " + num(id) + " sees pending " + show(c.pendingTransition()) + " but the request under evaluation is " + show(evaluating));
		if (!same(c.currentTransition(), survivor))
			err(std::string(kname[k]) + " of state " + num(id) + " sees current " + show(c.currentTransition()) + " but the transition accepted so far is " + show(survivor));
	}
	const int ch = choose(2 + 2 * NS + 2 * NS);   // 0 nothing, 1 cancel, 2.. redirect (with/without payload), then cancel+redirect
	if (ch == 1) { c.cancelPendingTransition(); note("cancel"); eval_cancelled = true; }
	else if (ch >= 2 && ch < 2 + 2 * NS) { request(c, id, ch - 1); }
	else if (ch >= 2 + 2 * NS) { c.cancelPendingTransition(); note("cancel"); eval_cancelled = true; request(c, id, ch - 1 - 2 * NS); }
}
#ifdef ROOT_REPORTS
// the root reports a task status from its own update() / react(): the active state still receives every callback of the cycle (C05)
static void report_status(FSM::FullControl& c) { c.succeed(StateID{0}); }
template <typename TC> static void report_status(TC&) {}
#endif
template <typename TC> static void phase(TC& c, int id, int k, const Ev* e) {
	note(std::string(kname[k]) + num(id));
	check_control(c, id, k);
	cycle.push_back(k * 16 + (id + 1));
	if ((ORACLES & O_CYCLE) && e != cur_event) err(std::string(kname[k]) + " of state " + num(id) + " received a different event object");
	if ((ORACLES & O_PROTOCOL) && id >= 0 && id != p_entered) err(std::string(kname[k]) + " delivered to state " + num(id) + " while the entered state is " + num(p_entered));
#ifdef ROOT_REPORTS
	if (id < 0 && (k == UPDATE || k == REACT)) report_status(c);
#endif
	const int ch = choose(1 + 2 * NS);
	request(c, id, ch);
}
static void lifecycle(PlanControlX& c, int id, int k) {
	note(std::string(kname[k]) + num(id));
	round_close();
	check_control(c, id, k);
	if (ORACLES & O_PROTOCOL) {
		if (k == ENTER) {
			if (id < 0) { if (p_root || p_entered >= 0) err("root enter() while the machine is already entered"); p_root = true; }
			else { if (!p_root) err("enter(" + num(id) + ") before the root's enter()"); if (p_entered >= 0) err("enter(" + num(id) + ") while state " + num(p_entered) + " has not been exited"); p_entered = id; }
		} else if (k == EXIT) {
			if (id < 0) { if (p_entered >= 0) err("root exit() before the active state's exit()"); if (!p_root) err("root exit() without enter()"); p_root = false; }
			else { if (p_entered != id) err("exit(" + num(id) + ") while the entered state is " + num(p_entered)); p_entered = -1; }
		} else if (k == REENTER) { if (id >= 0 && p_entered != id) err("reenter(" + num(id) + ") while the entered state is " + num(p_entered)); }
	} else {
		if (k == ENTER) { if (id < 0) p_root = true; else p_entered = id; }
		if (k == EXIT) { if (id < 0) p_root = false; else p_entered = -1; }
	}
	// C01: while enter(id) runs, id -- and nothing else -- is the active state as seen through the control
	if ((ORACLES & O_PROTOCOL) && k == ENTER && id >= 0)
		for (int s = 0; s < NS; ++s) if (c.isActive(static_cast<StateID>(s)) != (s == id)) err("during enter(" + num(id) + ") control.isActive(" + num(s) + ") is " + num(c.isActive(static_cast<StateID>(s))));
	if ((ORACLES & O_PAYLOAD) && (k == ENTER || k == REENTER) && id >= 0 && (in_step || activation) && !same(c.currentTransition(), survivor))
		err(std::string(kname[k]) + " of state " + num(id) + " sees current " + show(c.currentTransition()) + " but the surviving request is " + show(survivor));
}

#define CALLBACKS(ID) \
	void entryGuard(GuardControl& c) { guard(c, ID, ENTRY_GUARD); } \
	void enter(PlanControl& c) { lifecycle(c, ID, ENTER); } \
	void reenter(PlanControl& c) { lifecycle(c, ID, REENTER); } \
	void preUpdate(FullControl& c) { phase(c, ID, PRE_UPDATE, nullptr); } \
	void update(FullControl& c) { phase(c, ID, UPDATE, nullptr); } \
	void postUpdate(FullControl& c) { phase(c, ID, POST_UPDATE, nullptr); } \
	void preReact(const Ev& e, FullControl& c) { phase(c, ID, PRE_REACT, &e); } \
	void react(const Ev& e, FullControl& c) { phase(c, ID, REACT, &e); } \
	void postReact(const Ev& e, FullControl& c) { phase(c, ID, POST_REACT, &e); } \
	void exitGuard(GuardControl& c) { guard(c, ID, EXIT_GUARD); } \
	void exit(PlanControl& c) { lifecycle(c, ID, EXIT); }
struct R : FSM::State { CALLBACKS(-1) };
template <int I> struct S : FSM::State { CALLBACKS(I) };

static FSM::Instance* inst;
static int machine_active() { return inst ? (inst->activeStateId() == INVALID_STATE_ID ? -1 : inst->activeStateId()) : -2; }
struct Logger : FSM::Logger {
	using CtxRef = const FSM::Logger::Context&;
	void recordMethod(CtxRef, const StateID o, const Method m) override { logrec.push_back("M" + num(o == INVALID_STATE_ID ? -1 : o) + ":" + ffsm2::methodName(m)); }
	void recordTransition(CtxRef, const StateID o, const StateID t) override { logrec.push_back("T" + num(o == INVALID_STATE_ID ? -1 : o) + ">" + num(t)); }
	void recordCancelledPending(CtxRef, const StateID o) override { logrec.push_back("C" + num(o)); }
};

// ---------------------------------------------------------------- guard-round bookkeeping from the trace
// The survivor oracle is computed from the textual trace of one processing step: a round is the maximal run of
// guard callbacks between two requests being picked up; the request evaluated in a round is the outstanding one
// when the round starts; it survives iff no guard of the round cancelled.
struct StepOracle {
	Req outstanding; Req surv; int nrounds = 0;
};


// Guard rounds of one processing step (or of the activation), recomputed from the textual trace: a round starts
// at an exitGuard (processing) or at the root's entryGuard (activation) and evaluates the request outstanding at
// that moment; it survives iff no guard of the round cancelled; requests issued meanwhile become outstanding.
static void analyse(const std::string& st, Req outstanding, bool act, Req& surv, Req& leftover, int& nrounds) {
	std::vector<std::string> tok; std::string cur;
	for (size_t i = 0; i < st.size(); ++i) {
		if (st[i] == ' ' && (cur.find('{') == std::string::npos || cur.find('}') != std::string::npos)) { if (!cur.empty()) tok.push_back(cur); cur.clear(); }
		else cur += st[i];
	}
	if (!cur.empty()) tok.push_back(cur);
	bool round_open = false, round_cancel = false; Req round_req = Req{};
	for (const std::string& t : tok) {
		const bool starts = act ? (t == "entryGuard-1") : (t.compare(0, 9, "exitGuard") == 0);
		const bool g = t.compare(0, 9, "exitGuard") == 0 || t.compare(0, 10, "entryGuard") == 0;
		if (starts) { if (round_open) { ++nrounds; if (!round_cancel) surv = round_req; } round_open = true; round_cancel = false; round_req = outstanding; outstanding = Req{}; }
		else if (g) { if (!round_open) { round_open = true; round_cancel = false; round_req = outstanding; outstanding = Req{}; } }
		else if (t == "cancel") round_cancel = true;
		else if (t.compare(0, 4, "req{") == 0) {
			Req r{}; r.any = true; r.has = false; r.payload = 0;
			std::sscanf(t.c_str(), "req{%d->%d", &r.origin, &r.dest);
			const size_t pp = t.find("payload "); if (pp != std::string::npos) { r.has = true; r.payload = std::atoi(t.c_str() + pp + 8); }
			outstanding = r;
		} else if (t.compare(0, 5, "enter") == 0 || t.compare(0, 7, "reenter") == 0 || t.compare(0, 4, "exit") == 0) { if (round_open) { ++nrounds; if (!round_cancel) surv = round_req; round_open = false; } }
	}
	if (round_open) { ++nrounds; if (!round_cancel) surv = round_req; }
	leftover = outstanding;
#ifndef REPORT_F9
	// known finding F9 (known_findings.txt): a request to the destination of the *bare* transition accepted so far in the same step is
	// dropped by applyRequest() without consulting guards.  The model follows the library here so that this recorded behaviour is not
	// reported again as the reproduction of some other violation; build with -DREPORT_F9 to see it.
	if (leftover.any && nrounds < LIMIT + (act ? 1 : 0) && surv.any && surv.dest == leftover.dest && surv.origin == -1 && !surv.has) leftover = Req{};
#endif
}

static int active_now() { return inst->activeStateId() == INVALID_STATE_ID ? -1 : inst->activeStateId(); }

static void after_call(const char* what) {
	if (ORACLES & O_PROTOCOL) {
		if (active_now() != p_entered) err(std::string("after ") + what + ": activeStateId() is " + num(active_now()) + " but the state entered and not exited is " + num(p_entered));
		int cnt = 0; for (int s = 0; s < NS; ++s) cnt += inst->isActive(static_cast<StateID>(s)) ? 1 : 0;
		if (cnt != (p_entered >= 0 ? 1 : 0)) err(std::string("after ") + what + ": " + num(cnt) + " states report isActive()");
	}
}

// replays the decisions of one processing step symbolically: returns the expected survivor
static void run_step(const char* what, int start_active) {
	(void) start_active;
	after_call(what);
}

int main() {
	const std::clock_t t0 = std::clock();
	long runs = 0;
	do {
		pos = 0; trace.clear(); errors.clear(); round_open = false; eval_cancelled = false; p_entered = -1; p_root = false; payload_counter = 100; last_request = Req{}; survivor = Req{}; evaluating = Req{}; in_step = false; inst = nullptr; logrec.clear();
		Ctx ctx{77};
		{
			activation = true;
			FSM::Instance m{ctx};
			round_close(); activation = false;
			inst = &m;
			after_call("construction");
			Req leftover = Req{};
			{
				Req surv = Req{}; int nrounds = 0;
				analyse(trace, Req{}, true, surv, leftover, nrounds);
				// the first activation round evaluates the initial state without a request: it never yields a survivor
				if ((ORACLES & O_ROUNDS) && nrounds > LIMIT + 1) err("activation: " + num(nrounds) + " entry-guard rounds exceed limit+1");
				if ((ORACLES & O_SURVIVOR) && active_now() != (surv.any ? surv.dest : 0)) err("after activation: last redirect that passed its guards is " + show(surv) + " but the active state is " + num(active_now()));
				if ((ORACLES & O_HISTORY) && !same(m.previousTransition(), surv)) err("after activation: previousTransition() is " + show(m.previousTransition()) + " but the applied redirect is " + show(surv));
			}
			for (int step = 0; step < 2 && errors.empty(); ++step) {
				const int api = choose(2 + 4 * NS);   // 0 update, 1 react, 2.. immediateChangeTo / immediateChangeWith, then deferred changeTo<T>(), then replayTransition
				const int before = active_now();
				round_close(); survivor = Req{}; last_request = leftover; in_step = true; cycle.clear();
				std::string what; Req api_req = Req{};
				Ev ev{5}; cur_event = nullptr;
				if (api == 0) { what = "update()"; note("|update"); m.update(); }
				else if (api == 1) { what = "react()"; note("|react"); cur_event = &ev; m.react(ev); cur_event = nullptr; }
				else if (api >= 2 + 2 * NS && api < 2 + 3 * NS) {
					// C02: the type-based deferred request changes nothing when made; it is the outstanding request of the next step
					const int k = api - 2 - 2 * NS; what = "changeTo<S<" + num(k) + ">>()"; note("|" + what);
					const std::string t_before = trace;
					switch (k) { case 0: m.changeTo<S<0>>(); break; case 1: m.changeTo<S<1>>(); break; case 2: m.changeTo<S<2>>(); break;
#if NS == 4
						case 3: m.changeTo<S<3>>(); break;
#endif
						default: break; }
					if (trace != t_before) err(what + " ran callbacks when the request was made: " + trace.substr(t_before.size()));
					if (active_now() != before) err(what + " changed the active state from " + num(before) + " to " + num(active_now()) + " when the request was made");
					leftover = Req{-1, k, false, 0, true}; round_close(); in_step = false; continue;
				}
				else if (api >= 2 + 3 * NS) {
					// C01 / C11: replayTransition(k): exit(old) then enter(k), or reenter(k) alone; no guard is consulted
					const int k = api - 2 - 3 * NS; what = "replayTransition(" + num(k) + ")"; note("|" + what);
					const size_t n0 = trace.size();
					m.replayTransition(static_cast<StateID>(k));
					const std::string got = trace.substr(n0);
					const std::string want = (k == before) ? ("reenter" + num(k) + " ") : ("exit" + num(before) + " enter" + num(k) + " ");
					if ((ORACLES & (O_PROTOCOL | O_HISTORY)) && got != want) err(what + " from state " + num(before) + " delivered '" + got + "', expected '" + want + "'");
					if ((ORACLES & (O_PROTOCOL | O_HISTORY)) && active_now() != k) err(what + " left the machine in state " + num(active_now()));
					round_close(); in_step = false; continue;      // (an outstanding request stays outstanding)
				}
				else if (api < 2 + NS) { what = "immediateChangeTo(" + num(api - 2) + ")"; note("|" + what); last_request = api_req = Req{-1, api - 2, false, 0, true}; m.immediateChangeTo(static_cast<StateID>(api - 2)); }
				else { const int p = ++payload_counter; what = "immediateChangeWith(" + num(api - 2 - NS) + "," + num(p) + ")"; note("|" + what); last_request = api_req = Req{-1, api - 2 - NS, true, p, true}; m.immediateChangeWith(static_cast<StateID>(api - 2 - NS), p); }
				round_close(); in_step = false;
				after_call(what.c_str());
				// ---- survivor / rounds / history oracles, recomputed from the trace of this step
				{
					const size_t bar = trace.rfind('|');
					Req surv = Req{}; int nrounds = 0;
					const Req carried = leftover;
					analyse(trace.substr(bar), api >= 2 ? api_req : leftover, false, surv, leftover, nrounds);
					// C07 / C02: a request that was issued and neither cancelled nor replaced must come before the guards at the next processing point
					if ((ORACLES & O_PAYLOAD) && api < 2 && carried.any && nrounds == 0 && trace.substr(bar).find("req{") == std::string::npos)
						err("after " + what + ": the request " + show(carried) + " issued during the previous step was silently dropped (never evaluated by guards, never applied)");
					const bool phase_step = api < 2;
					(void) phase_step;
					if ((ORACLES & O_ROUNDS) && nrounds > LIMIT) err("after " + what + ": " + num(nrounds) + " guard rounds exceed the substitution limit " + num(LIMIT));
					if (ORACLES & O_SURVIVOR) {
						if (surv.any && active_now() != surv.dest) err("after " + what + ": the last request that passed its guards is " + show(surv) + " but the active state is " + num(active_now()));
						if (!surv.any && active_now() != before) err("after " + what + ": no request survived but the active state changed from " + num(before) + " to " + num(active_now()));
					}
					if ((ORACLES & O_HISTORY) && !same(m.previousTransition(), surv)) err("after " + what + ": previousTransition() is " + show(m.previousTransition()) + " but the applied transition is " + show(surv));
					if ((ORACLES & O_HISTORY) && m.previousTransition() && m.previousTransition().destination != active_now()) err("after " + what + ": previousTransition().destination is " + num(m.previousTransition().destination) + " but the active state is " + num(active_now()));
					if ((ORACLES & O_CYCLE) && api < 2) {
						const int a = before + 1; const int b = api == 0 ? PRE_UPDATE : PRE_REACT;
						const int want[6] = {b * 16 + 0, b * 16 + a, (b + 1) * 16 + 0, (b + 1) * 16 + a, (b + 2) * 16 + a, (b + 2) * 16 + 0};
						// react has QUERY between REACT and POST_REACT in the enum: map
						int w2[6]; for (int q = 0; q < 6; ++q) w2[q] = want[q];
						if (api == 1) { w2[4] = POST_REACT * 16 + a; w2[5] = POST_REACT * 16 + 0; }
						bool okc = cycle.size() >= 6; for (int q = 0; q < 6 && okc; ++q) okc = cycle[static_cast<size_t>(q)] == w2[q];
						if (!okc || cycle.size() != 6) err("after " + what + ": phase callbacks delivered out of the fixed order (got " + num(static_cast<long>(cycle.size())) + " phase callbacks)");
					}
				}
			}
			inst = nullptr; in_step = false;
		}
		if ((ORACLES & O_PROTOCOL) && errors.empty() && (p_entered >= 0 || p_root)) err("after destruction: enter() left unpaired (state " + num(p_entered) + ", root " + num(p_root) + ")");
		++runs;
		if (!errors.empty()) {
			std::string sc; for (size_t q = 0; q < choice.size(); ++q) sc += num(choice[q]) + (q + 1 < choice.size() ? "," : "");
			std::string e = errors[0]; for (char& ch : e) if (ch == '"') ch = '\'';
			std::printf("{\"states\": %d, \"substitution_limit\": %d, \"script\": [%s], \"trace\": \"%s\", \"divergence\": \"%s\", \"runs\": %ld}\n", NS, LIMIT, sc.c_str(), trace.c_str(), e.c_str(), runs);
			return 1;
		}
		if ((std::clock() - t0) / CLOCKS_PER_SEC > BUDGET_S) break;
	} while (next_script());
	std::fprintf(stderr, "no divergence in %ld scripts\n", runs);
	return 0;
}
