// Native replay driver for DynamicArrayT<T, CAP> / StaticArrayT<T, CAP>: real templates against std::vector.
#define FFSM2_ENABLE_PLANS
#include FFSM2_HEADER
#include <cstdio>
#include <vector>
#include <string>
#ifndef CAP
#define CAP 5
#endif
using namespace ffsm2; using namespace ffsm2::detail;
static unsigned rnd_state = 1u;
static unsigned rnd() { rnd_state = rnd_state * 1664525u + 1013904223u; return rnd_state >> 8; }
static std::string h;
static int fail(const char* what, long a, long b) { std::printf("{\"capacity\": %d, \"history\": \"%s\", \"divergence\": \"%s: real %ld, expected %ld\"}\n", CAP, h.c_str(), what, a, b); return 1; }
template <typename A> static int same(A& a, const std::vector<uint8_t>& m) {
	if (a.count() != m.size()) return fail("count()", a.count(), static_cast<long>(m.size()));
	if (a.empty() != m.empty()) return fail("empty()", a.empty(), m.empty());
	for (size_t i = 0; i < m.size(); ++i) if (a[static_cast<Long>(i)] != m[i]) return fail("operator[]", a[static_cast<Long>(i)], m[i]);
	size_t n = 0; for (auto& x : a) { if (n >= m.size()) return fail("iteration visits more elements than count()", static_cast<long>(n + 1), static_cast<long>(m.size())); if (x != m[n]) return fail("iteration order", x, m[n]); ++n; }
	if (n != m.size()) return fail("iteration length", static_cast<long>(n), static_cast<long>(m.size()));
	const A& ca = a; n = 0; for (const auto& x : ca) { (void) x; ++n; } if (n != m.size()) return fail("const iteration length", static_cast<long>(n), static_cast<long>(m.size()));
	return 0;
}
int main() {
	for (unsigned seed = 1; seed <= 500; ++seed) {
		rnd_state = seed; h.clear();
		DynamicArrayT<uint8_t, CAP> a, b; std::vector<uint8_t> m, mb;
		for (unsigned s = 0; s < 30; ++s) {
			unsigned op = rnd() % 6; uint8_t v = static_cast<uint8_t>(rnd());
			if (op <= 1 && m.size() < CAP) { a.emplace(v); m.push_back(v); h += "emplace;"; }
			else if (op == 2 && m.size() < CAP) { a += v; m.push_back(v); h += "+=item;"; }
			else if (op == 3 && mb.size() < CAP) { b.emplace(v); mb.push_back(v); h += "b.emplace;"; }
			else if (op == 4 && m.size() + mb.size() <= CAP) { a += b; m.insert(m.end(), mb.begin(), mb.end()); h += "a+=b;"; }
			else if (op == 5 && rnd() % 4 == 0) { a.clear(); m.clear(); h += "clear;"; }
			if (same(a, m)) return 1;
		}
	}
	// StaticArrayT
	{ h = "static fill/clear/index"; StaticArrayT<uint8_t, CAP> s; for (unsigned i = 0; i < CAP; ++i) if (s[static_cast<Long>(i)] != 0) return fail("value-initialised element", s[static_cast<Long>(i)], 0);
	  s.fill(7); for (unsigned i = 0; i < CAP; ++i) if (s[static_cast<Long>(i)] != 7) return fail("fill()", s[static_cast<Long>(i)], 7);
	  for (unsigned i = 0; i < CAP; ++i) s[static_cast<Long>(i)] = static_cast<uint8_t>(i + 1); for (unsigned i = 0; i < CAP; ++i) if (s[static_cast<Long>(i)] != i + 1) return fail("store/load", s[static_cast<Long>(i)], i + 1);
	  if (s.empty()) return fail("empty() on a filled array", 1, 0); s.clear(); if (!s.empty()) return fail("empty() after clear()", 0, 1); if (s.count() != CAP) return fail("count()", s.count(), CAP); }
	return 0;
}
