// Native replay driver for C17 / C09: constructs REAL machines over memory pre-filled with different byte patterns and
// compares their observable behaviour on the same script (construction is not allowed to depend on prior memory contents),
// then compares a copy-constructed machine with its original.
#define FFSM2_ENABLE_PLANS
#define FFSM2_ENABLE_TRANSITION_HISTORY
#include FFSM2_HEADER
#include <cstdio>
#include <cstring>
#include <new>
#include <string>
#include <cstdlib>
using ffsm2::StateID;
struct Ctx { int tag; };
using M = ffsm2::MachineT<ffsm2::Config::ContextT<Ctx&>::PayloadT<int>>;
struct R; struct A; struct B; struct C;
using FSM = M::Root<R, A, B, C>;
static std::string* trace;
struct R : FSM::State { void planSucceeded(FullControl&) { *trace += "planSucceeded "; } void planFailed(FullControl&) { *trace += "planFailed "; } };
struct A : FSM::State { int ticks = 0;   // user data held by the state object itself: part of what a copy of the machine copies
	void enter(PlanControl&) { *trace += "A.enter "; } void exit(PlanControl&) { *trace += "A.exit "; } void update(FullControl& c) { *trace += "A.update "; ++ticks; c.succeed(); } };
struct B : FSM::State { void enter(PlanControl&) { *trace += "B.enter "; } void exit(PlanControl&) { *trace += "B.exit "; } void update(FullControl& c) { *trace += "B.update "; c.fail(); } };
struct C : FSM::State { void enter(PlanControl&) { *trace += "C.enter "; } void exit(PlanControl&) { *trace += "C.exit "; } };
static std::string observe(const FSM::Instance& m) {
	std::string s = "A.ticks=" + std::to_string(m.access<A>().ticks) + " active=" + std::to_string(m.activeStateId()) + " prev=" + std::to_string(m.previousTransition().destination) + "/" + std::to_string(m.previousTransition().origin)
		+ (m.previousTransition().payload() ? "/p" + std::to_string(*m.previousTransition().payload()) : "") + " plan=[";
	auto pl_ = m.plan(); for (auto it = pl_.begin(); it; ++it) s += std::to_string(it->origin) + ">" + std::to_string(it->destination) + (it->payload() ? "/p" + std::to_string(*it->payload()) : "") + ",";
	return s + "]";
}
static std::string script(unsigned char fill) {
	alignas(16) static unsigned char storage[sizeof(FSM::Instance) + 64];
	std::memset(storage, fill, sizeof storage);
	std::string t; trace = &t; Ctx ctx{1};
	FSM::Instance* m = new (storage) FSM::Instance{ctx};
	t += "|" + observe(*m) + "|";
	m->update();               // A reports success; no task was ever added: neither plan callback may be delivered
	t += "|" + observe(*m) + "|";
	m->immediateChangeWith<B>(7);
	{ FSM::Instance copy{*m}; std::string tc; trace = &tc; const std::string o1 = observe(*m), o2 = observe(copy);   // copy taken right after a transition: history, active state and plan must agree
	  if (o1 != o2) { std::printf("{\"divergence\": \"copy differs from the original at the moment of copying: original %s, copy %s\"}\n", o1.c_str(), o2.c_str()); std::exit(1); }
	  trace = &t; }
	m->update();               // B reports failure, still no plan
	t += "|" + observe(*m) + "|";
	m->plan().change<B, C>(); m->plan().changeWith<C, A>(9);
	{ FSM::Instance copy{*m}; std::string tc; trace = &tc; const std::string o1 = observe(*m), o2 = observe(copy);
	  if (o1 != o2) { std::printf("{\"divergence\": \"copy differs from the original at the moment of copying: original %s, copy %s\"}\n", o1.c_str(), o2.c_str()); std::exit(1); }
	  trace = &t; }
	// a copy taken while a request (with payload) is outstanding responds to the same input like the original
	m->changeWith<A>(5);
	{ FSM::Instance copy{*m}; std::string tc, to; trace = &tc; copy.update(); const std::string o2 = observe(copy); trace = &to; m->update(); const std::string o1 = observe(*m);
	  if (o1 != o2 || tc != to) { std::printf("{\"divergence\": \"copy taken with a request outstanding behaves differently: original %s [%s], copy %s [%s]\"}\n", o1.c_str(), to.c_str(), o2.c_str(), tc.c_str()); std::exit(1); }
	  trace = &t; t += "|" + o1 + "|"; }
	m->~InstanceT();
	return t;
}
// a copy taken after a task report was recorded (no plan yet) carries the report: the same plan then advances on both
static int copy_reports() {
	Ctx ctx{1}; std::string t1, t2; trace = &t1;
	FSM::Instance m{ctx};
	m.immediateChangeTo<C>(); m.succeed<C>();
	FSM::Instance c{m};
	m.plan().change<C, A>(); c.plan().change<C, A>();
	trace = &t1; m.update(); const std::string o1 = observe(m);
	trace = &t2; c.update(); const std::string o2 = observe(c);
	if (o1 != o2) { std::printf("{\"divergence\": \"copy taken after a task report behaves differently once a plan is added: original %s, copy %s\"}\n", o1.c_str(), o2.c_str()); return 1; }
	return 0;
}
int main() {
	if (copy_reports()) return 1;
	const std::string a = script(0x00), b = script(0xFF), c = script(0xA5);
	if (a.find("planSucceeded") != std::string::npos || a.find("planFailed") != std::string::npos) { std::printf("{\"divergence\": \"plan callback delivered on a machine to which no task was added (zero-filled memory): %s\"}\n", a.c_str()); return 1; }
	if (a != b || a != c) { std::printf("{\"divergence\": \"behaviour depends on prior memory contents: fill 0x00 gives '%s', 0xFF gives '%s', 0xA5 gives '%s'\"}\n", a.c_str(), b.c_str(), c.c_str()); return 1; }
	return 0;
}
