// Native replay driver for C12 / C18 at 128..255 states: save()/load() of a REAL machine with 200 states; the serial buffer
// sits between canary bytes (what save() writes must stay inside the buffer the library declares for that machine).
#define FFSM2_ENABLE_SERIALIZATION
#include FFSM2_HEADER
#include <cstdio>
#include <cstring>
#include <string>
using ffsm2::StateID;
using M = ffsm2::MachineT<ffsm2::Config::ManualActivation>;
struct R; template <int I> struct S;
#define S10(b) S<b+0>, S<b+1>, S<b+2>, S<b+3>, S<b+4>, S<b+5>, S<b+6>, S<b+7>, S<b+8>, S<b+9>
#define S50(b) S10(b), S10(b+10), S10(b+20), S10(b+30), S10(b+40)
using FSM = M::Root<R, S50(0), S50(50), S50(100), S50(150)>;
struct R : FSM::State {};
template <int I> struct S : FSM::State {};
static int fail(const std::string& s) { std::printf("{\"states\": 200, \"divergence\": \"%s\"}\n", s.c_str()); return 1; }
struct Guarded { unsigned char pre[16]; FSM::Instance::SerialBuffer buf; unsigned char post[16]; };
int main() {
	const int probe[] = {-1, 0, 1, 63, 64, 127, 128, 129, 170, 199};
	for (int s : probe) for (int l : probe) {
		FSM::Instance saver, loader;
		if (s >= 0) { saver.enter(); saver.immediateChangeTo(static_cast<StateID>(s)); }
		if (l >= 0) { loader.enter(); loader.immediateChangeTo(static_cast<StateID>(l)); }
		Guarded g; std::memset(&g, 0xA5, sizeof g);
		saver.save(g.buf);
		for (unsigned k = 0; k < sizeof g.pre; ++k) if (g.pre[k] != 0xA5 || g.post[k] != 0xA5) return fail("save() of state " + std::to_string(s) + " wrote outside the serial buffer (" + std::to_string(sizeof g.buf) + " bytes)");
		Guarded h; std::memset(&h, 0x00, sizeof h); saver.save(h.buf);
		if (g.buf != h.buf || !(g.buf == h.buf)) return fail("save() is not canonical (depends on prior buffer contents), state " + std::to_string(s));
		loader.load(g.buf);
		const int got = loader.isActive() ? static_cast<int>(loader.activeStateId()) : -1;
		if (got != s) return fail("saver in state " + std::to_string(s) + ", loader (was " + std::to_string(l) + ") ends in " + std::to_string(got));
		// two savers in different states must produce different buffers
		for (int s2 : probe) if (s2 != s) { FSM::Instance o; if (s2 >= 0) { o.enter(); o.immediateChangeTo(static_cast<StateID>(s2)); } Guarded k2; std::memset(&k2, 0, sizeof k2); o.save(k2.buf);
			if (k2.buf == g.buf || !(k2.buf != g.buf)) return fail("states " + std::to_string(s) + " and " + std::to_string(s2) + " serialise to equal buffers"); }
	}
	return 0;
}
