// Native replay driver for C10 (and the plan parts of C08/C09): the REAL plan API of a machine against a std::vector model.
//   -DCAP=<task capacity>
#define FFSM2_ENABLE_PLANS
#include FFSM2_HEADER
#include <cstdio>
#include <string>
#include <vector>
#ifndef CAP
#define CAP 4
#endif
using ffsm2::StateID;
using M = ffsm2::MachineT<ffsm2::Config::PayloadT<int>::TaskCapacityN<CAP>>;
struct R; struct A; struct B; struct C;
using FSM = M::Root<R, A, B, C>;
static int plan_ok, plan_fail; static std::string h;
struct R : FSM::State { void planSucceeded(FullControl&) { ++plan_ok; } void planFailed(FullControl&) { ++plan_fail; } };
struct A : FSM::State {}; struct B : FSM::State {}; struct C : FSM::State {};
struct T { int o, d; bool has; int p; };
static unsigned rs = 1; static unsigned rnd() { rs = rs * 1664525u + 1013904223u; return rs >> 8; }
static int fail(const std::string& what) { std::printf("{\"capacity\": %d, \"history\": \"%s\", \"divergence\": \"%s\"}\n", CAP, h.c_str(), what.c_str()); return 1; }
static int same(FSM::Instance& m, const std::vector<T>& v) {
	const FSM::Instance& cm = m;
	size_t n = 0;
	auto cplan = cm.plan();            // iterators refer to the plan object they come from: it has to outlive them
	for (auto it = cplan.begin(); it; ++it, ++n) {
		if (n >= v.size()) return fail("iteration yields more tasks than were appended and not removed");
		if (it->origin != v[n].o || it->destination != v[n].d) return fail("task " + std::to_string(n) + " is " + std::to_string(it->origin) + ">" + std::to_string(it->destination) + ", expected " + std::to_string(v[n].o) + ">" + std::to_string(v[n].d));
		if ((it->payload() != nullptr) != v[n].has || (v[n].has && *it->payload() != v[n].p)) return fail("payload of task " + std::to_string(n) + " differs");
	}
	if (n != v.size()) return fail("iteration yields " + std::to_string(n) + " tasks, expected " + std::to_string(v.size()));
	auto cp = cm.plan();
	if (static_cast<bool>(cp) != !v.empty()) return fail("emptiness test disagrees with the sequence");
	if (!v.empty() && (cp.first().origin != v.front().o || cp.first().destination != v.front().d || cp.last().origin != v.back().o || cp.last().destination != v.back().d)) return fail("first()/last() disagree with the sequence");
	return 0;
}
int main() {
	for (unsigned seed = 1; seed <= 4000; ++seed) {
		rs = seed; h.clear(); FSM::Instance m; std::vector<T> v;
		for (unsigned s = 0; s < 40; ++s) {
			const unsigned op = rnd() % 8; const int o = rnd() % 3, d = rnd() % 3, p = static_cast<int>(rnd() % 1000);
			if (op <= 2) { const bool r = m.plan().change(static_cast<StateID>(o), static_cast<StateID>(d)); h += "change;"; if (r != (v.size() < CAP)) return fail("change() returned " + std::to_string(r) + " with " + std::to_string(v.size()) + " tasks present"); if (r) v.push_back(T{o, d, false, 0}); }
			else if (op <= 4) { const bool r = m.plan().changeWith(static_cast<StateID>(o), static_cast<StateID>(d), p); h += "changeWith;"; if (r != (v.size() < CAP)) return fail("changeWith() returned " + std::to_string(r) + " with " + std::to_string(v.size()) + " tasks present"); if (r) v.push_back(T{o, d, true, p}); }
			else if (op <= 6 && !v.empty()) { const size_t k = rnd() % v.size(); size_t n = 0; auto pl = m.plan(); for (auto it = pl.begin(); it; ++it, ++n) if (n == k) it.remove(); v.erase(v.begin() + static_cast<long>(k)); h += "remove(" + std::to_string(k) + ");"; }
			else if (op == 7 && rnd() % 3 == 0) { m.plan().clear(); v.clear(); h += "clear;"; }
			if (same(m, v)) return 1;
		}
		// full capacity must be available again once the plan is empty
		m.plan().clear(); v.clear(); h += "clear;";
		for (unsigned k = 0; k < CAP; ++k) { if (!m.plan().change(0, 1)) return fail("after clear() append #" + std::to_string(k + 1) + " of " + std::to_string(CAP) + " is refused (slots leaked)"); v.push_back(T{0, 1, false, 0}); }
		if (m.plan().change(0, 1)) return fail("append beyond the capacity succeeded");
		if (same(m, v)) return 1;
	}
	return 0;
}
