// Native replay driver for C08 / C09: the plan step of the REAL machine (update() -> deepUpdatePlans -> updatePlan, task
// reports, plan outcome callbacks, deactivation) against a reference model written from the property statements.
//   -DCAP=<task capacity>  -DVOIDP (no payload type: the payload-free specialisations)  -DSEEDS=<n>
#define FFSM2_ENABLE_PLANS
#define FFSM2_ENABLE_TRANSITION_HISTORY
#include FFSM2_HEADER
#include <cstdio>
#include <string>
#include <vector>
#include <set>
#ifndef CAP
#define CAP 4
#endif
#ifndef SEEDS
#define SEEDS 6000
#endif
using ffsm2::StateID;
#ifdef VOIDP
using Cfg = ffsm2::Config::TaskCapacityN<CAP>::ManualActivation;
#else
using Cfg = ffsm2::Config::PayloadT<int>::TaskCapacityN<CAP>::ManualActivation;
#endif
using M = ffsm2::MachineT<Cfg>;
struct R; struct A; struct B; struct C;
using FSM = M::Root<R, A, B, C>;
static int plan_ok, plan_fail, tasks_in_callback; static std::string h;
struct R : FSM::State {
	void planSucceeded(FullControl& control) { ++plan_ok; auto p = control.plan(); for (auto it = p.begin(); it; ++it) ++tasks_in_callback; }
	void planFailed(FullControl&) { ++plan_fail; } };
struct A : FSM::State {}; struct B : FSM::State {}; struct C : FSM::State {};
struct T { int o, d; bool has; int p; };
static unsigned rs = 1; static unsigned rnd() { rs = rs * 1664525u + 1013904223u; return rs >> 8; }
static int fail(const std::string& what) { std::printf("{\"capacity\": %d, \"history\": \"%s\", \"divergence\": \"%s\"}\n", CAP, h.c_str(), what.c_str()); return 1; }

struct Model {
	bool active = false; int act = -1; std::vector<T> plan; std::set<int> S, F; bool exists = false; int ok = 0, failed = 0;
	bool fired = false; T last{};
	void clear_plan() { plan.clear(); S.clear(); F.clear(); }
	void update() {
		fired = false;
		const int status = F.count(act) ? 2 : (S.count(act) ? 1 : 0);
		if (status && exists) {
			if (status == 2) { ++failed; clear_plan(); }
			else if (!plan.empty()) {
				std::set<int> consumed;
				for (size_t k = 0; k < plan.size() && plan[k].o == act; ) {
					if (S.count(plan[k].o)) { fired = true; last = plan[k]; if (plan[k].o == plan[k].d) S.erase(plan[k].o); else consumed.insert(plan[k].o); plan.erase(plan.begin() + static_cast<long>(k)); }
					else ++k;
				}
				for (int c : consumed) S.erase(c);
			} else { ++ok; clear_plan(); }
		}
		if (fired) { if (last.d != act) { S.erase(act); F.erase(act); act = last.d; } }
	}
};

static int same(FSM::Instance& m, const Model& mo, const char* after) {
	const std::string w = std::string(" after ") + after;
	if (m.isActive() != mo.active) return fail("activity differs" + w);
	if (mo.active && m.activeStateId() != mo.act) return fail("active state is " + std::to_string(m.activeStateId()) + ", expected " + std::to_string(mo.act) + w);
	if (plan_ok != mo.ok) return fail("planSucceeded() delivered " + std::to_string(plan_ok) + " times, expected " + std::to_string(mo.ok) + w);
	if (plan_fail != mo.failed) return fail("planFailed() delivered " + std::to_string(plan_fail) + " times, expected " + std::to_string(mo.failed) + w);
	if (tasks_in_callback) return fail("planSucceeded() delivered while tasks remain" + w);
	const FSM::Instance& cm = m;
	size_t n = 0;
	auto cplan = cm.plan();
	for (auto it = cplan.begin(); it; ++it, ++n) {
		if (n >= mo.plan.size()) return fail("plan holds more tasks than expected" + w);
		if (it->origin != mo.plan[n].o || it->destination != mo.plan[n].d) return fail("task " + std::to_string(n) + " is " + std::to_string(it->origin) + ">" + std::to_string(it->destination) + ", expected " + std::to_string(mo.plan[n].o) + ">" + std::to_string(mo.plan[n].d) + w);
	}
	if (n != mo.plan.size()) return fail("plan holds " + std::to_string(n) + " tasks, expected " + std::to_string(mo.plan.size()) + w);
	return 0;
}

int main() {
	for (unsigned seed = 1; seed <= SEEDS; ++seed) {
		rs = seed; h.clear(); plan_ok = plan_fail = tasks_in_callback = 0;
		FSM::Instance m; Model mo;
		m.enter(); mo.active = true; mo.act = 0; h += "enter;";
		for (unsigned s = 0; s < 30; ++s) {
			const unsigned op = rnd() % 16; const int o = rnd() % 3, d = rnd() % 3, p = static_cast<int>(rnd() % 1000);
			if (!mo.active) { m.enter(); mo.active = true; mo.act = 0; h += "enter;"; if (same(m, mo, "enter()")) return 1; continue; }
			if (op <= 3) {
				bool r;
#ifndef VOIDP
				if (op & 1) { r = m.plan().changeWith(static_cast<StateID>(o), static_cast<StateID>(d), p); if (r) mo.plan.push_back(T{o, d, true, p}); }
				else
#endif
				{ r = m.plan().change(static_cast<StateID>(o), static_cast<StateID>(d)); if (r) mo.plan.push_back(T{o, d, false, 0}); }
				if (r) mo.exists = true;
				h += "plan " + std::to_string(o) + ">" + std::to_string(d) + ";";
			}
			else if (op <= 6) { m.succeed(static_cast<StateID>(o)); mo.S.insert(o); h += "succeed(" + std::to_string(o) + ");"; }
			else if (op <= 8) { m.fail(static_cast<StateID>(o)); mo.F.insert(o); h += "fail(" + std::to_string(o) + ");"; }
			else if (op <= 13) {
				m.update(); mo.update(); h += "update;";
				if (mo.fired) {
					// the request issued by the task: the task's destination, its origin as requester, its payload
					const auto& t = m.previousTransition();
					if (t.destination != mo.last.d || t.origin != mo.last.o) return fail("fired task's request is " + std::to_string(t.origin) + ">" + std::to_string(t.destination) + ", expected " + std::to_string(mo.last.o) + ">" + std::to_string(mo.last.d));
#ifndef VOIDP
					if ((t.payload() != nullptr) != mo.last.has || (mo.last.has && *t.payload() != mo.last.p)) return fail("fired task's request does not carry the task's payload");
#endif
				}
			}
			else if (op == 14) { m.plan().clear(); mo.clear_plan(); h += "clear;"; }
			else if (rnd() % 2 == 0) { m.exit(); mo = Model{}; mo.ok = plan_ok = 0; mo.failed = plan_fail = 0; h += "exit;"; }
			if (same(m, mo, "the last step")) return 1;
		}
	}
	return 0;
}
