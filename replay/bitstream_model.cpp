// Native replay driver for the bit streams / bitWidth(): real templates from /repo against a bit-by-bit model.
#define FFSM2_ENABLE_SERIALIZATION
#include FFSM2_HEADER
#include <cstdio>
#include <vector>
#include <string>
#ifndef CAP
#define CAP 255
#endif
using namespace ffsm2; using namespace ffsm2::detail;
static unsigned rnd_state = 1u;
static unsigned rnd() { rnd_state = rnd_state * 1664525u + 1013904223u; return rnd_state >> 4; }
struct Field { unsigned width; uint32_t value; };
template <unsigned W> struct WR {
	static void write(BitWriteStreamT<CAP>& s, uint32_t v) { s.template write<W>(static_cast<UBitWidth<W>>(v)); }
	static uint32_t read(BitReadStreamT<CAP>& s) { return s.template read<W>(); }
};
typedef void (*WFn)(BitWriteStreamT<CAP>&, uint32_t); typedef uint32_t (*RFn)(BitReadStreamT<CAP>&);
template <unsigned W> struct Tab { static void fill(WFn* w, RFn* r) { w[W] = &WR<W>::write; r[W] = &WR<W>::read; Tab<W - 1>::fill(w, r); } };
template <> struct Tab<0> { static void fill(WFn*, RFn*) {} };
static WFn wf[33]; static RFn rf[33];
static int fail(const std::string& h, const char* what, long a, long b) { std::printf("{\"capacity\": %d, \"fields\": \"%s\", \"divergence\": \"%s: real %ld, expected %ld\"}\n", CAP, h.c_str(), what, a, b); return 1; }
static int scenario(unsigned start, const std::vector<Field>& fs) {
	StreamBufferT<CAP> buf; std::vector<int> model(CAP, 0); std::string h = "start=" + std::to_string(start) + ";";
	BitWriteStreamT<CAP> ws{buf, static_cast<Long>(start)}; unsigned cur = start;
	for (const Field& f : fs) {
		h += "w" + std::to_string(f.width) + "(" + std::to_string(f.value) + ");";
		wf[f.width](ws, f.value);
		for (unsigned k = 0; k < f.width; ++k) model[cur + k] = (f.value >> k) & 1u;
		cur += f.width;
		if (ws.cursor() != cur) return fail(h, "write cursor", ws.cursor(), cur);
		for (unsigned k = 0; k < CAP; ++k) { int b = (buf.data()[k >> 3] >> (k & 7)) & 1; if (b != model[k]) return fail(h, ("buffer bit " + std::to_string(k)).c_str(), b, model[k]); }
	}
	BitReadStreamT<CAP> rs{buf, static_cast<Long>(start)}; cur = start;
	for (const Field& f : fs) { uint32_t v = rf[f.width](rs); cur += f.width; if (v != f.value) return fail(h, ("read back of a " + std::to_string(f.width) + "-bit field").c_str(), v, f.value); if (rs.cursor() != cur) return fail(h, "read cursor", rs.cursor(), cur); }
	return 0;
}
int main() {
	Tab<32>::fill(wf, rf);
	for (uint32_t v = 0; v < 70000; ++v) { uint32_t r = bitWidth(v), e = 0; while (e < 32 && (v >> e)) ++e; if (r != e) { std::printf("{\"divergence\": \"bitWidth(%u) returns %u, expected %u\"}\n", v, r, e); return 1; } }
	for (unsigned e = 16; e < 32; ++e) for (int d = -1; d <= 1; ++d) { uint32_t v = (1u << e) + d; uint32_t r = bitWidth(v), x = 0; while (x < 32 && (v >> x)) ++x; if (r != x) { std::printf("{\"divergence\": \"bitWidth(%u) returns %u, expected %u\"}\n", v, r, x); return 1; } }
	for (unsigned seed = 1; seed <= 3000; ++seed) {
		rnd_state = seed; unsigned start = rnd() % 8; std::vector<Field> fs; unsigned used = start;
		for (;;) { unsigned w = 1 + rnd() % 32; if (used + w > CAP) break; uint32_t v = rnd() ^ (rnd() << 12); unsigned mode = rnd() % 4; if (mode == 0) v = 0; if (mode == 1) v &= 0xFF; if (w < 32) v &= (1u << w) - 1; fs.push_back(Field{w, v}); used += w; if (fs.size() >= 12) break; }
		if (scenario(start, fs)) return 1;
	}
	return 0;
}
