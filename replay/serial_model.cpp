// Native replay driver for C12: every (saver, loader) activity pair of a REAL manual and automatic machine.
#define FFSM2_ENABLE_PLANS
#define FFSM2_ENABLE_SERIALIZATION
#include FFSM2_HEADER
#include <cstdio>
#include <cstring>
#include <string>
using ffsm2::StateID;
static std::string* tr;
template <typename TCfg> struct W {
	using M = ffsm2::MachineT<TCfg>;
	struct R; template <int I> struct S;
	using FSM = typename M::template Root<R, S<0>, S<1>, S<2>, S<3>, S<4>>;
	using PC = typename FSM::State::PlanControl; using GC = typename FSM::State::GuardControl;
	struct R : FSM::State { void enter(PC&) { *tr += "R+ "; } void exit(PC&) { *tr += "R- "; } void entryGuard(GC&) { *tr += "guard "; } void exitGuard(GC&) { *tr += "guard "; } };
	template <int I> struct S : FSM::State { void enter(PC&) { *tr += std::to_string(I) + "+ "; } void exit(PC&) { *tr += std::to_string(I) + "- "; } void reenter(PC&) { *tr += std::to_string(I) + "~ "; }
	                                         void entryGuard(GC& c) { *tr += "guard "; c.cancelPendingTransition(); } void exitGuard(GC& c) { *tr += "guard "; c.cancelPendingTransition(); } };
};
using WM = W<ffsm2::Config::ManualActivation>; using WA = W<ffsm2::Config>;
static int fail(const std::string& s) { std::printf("{\"divergence\": \"%s\"}\n", s.c_str()); return 1; }
int main() {
	const int N = 5;
	// manual: activity -1 (inactive) or 0..4
	for (int s = -1; s < N; ++s) for (int l = -1; l < N; ++l) {
		std::string junk, t; tr = &junk;
		WM::FSM::Instance saver, loader;
		if (s >= 0) { saver.enter(); for (int k = 0; k < s; ++k) {} }
		// guards veto everything, so states are reached through load() itself: first bring both machines to their states by loading hand-made buffers
		WM::FSM::Instance::SerialBuffer b0; { ffsm2::detail::BitWriteStreamT<WM::FSM::Instance::SerialBuffer::BIT_CAPACITY> ws{b0}; ws.template write<1>(s >= 0 ? 1 : 0); if (s >= 0) ws.template write<3>(static_cast<uint8_t>(s)); }
		saver.load(b0);
		WM::FSM::Instance::SerialBuffer b1; { ffsm2::detail::BitWriteStreamT<WM::FSM::Instance::SerialBuffer::BIT_CAPACITY> ws{b1}; ws.template write<1>(l >= 0 ? 1 : 0); if (l >= 0) ws.template write<3>(static_cast<uint8_t>(l)); }
		loader.load(b1);
		if ((saver.isActive() ? static_cast<int>(saver.activeStateId()) : -1) != s) return fail("hand-made buffer did not bring the saver to state " + std::to_string(s));
		WM::FSM::Instance::SerialBuffer buf, again; std::memset(&again, 0xFF, sizeof again);
		tr = &t; saver.save(buf);
		if (!t.empty()) return fail("save() ran callbacks: " + t);
		if ((saver.isActive() ? static_cast<int>(saver.activeStateId()) : -1) != s) return fail("save() modified the saver");
		saver.save(again); if (buf != again) return fail("save() into a used buffer differs from save() into a fresh one (not canonical), saver state " + std::to_string(s));
		if (!(buf == b0)) return fail("buffer is not the canonical encoding of state " + std::to_string(s));
		t.clear(); loader.load(buf);
		const int got = loader.isActive() ? static_cast<int>(loader.activeStateId()) : -1;
		if (got != s) return fail("load(): loader in state " + std::to_string(l) + " ends in " + std::to_string(got) + ", saver was in " + std::to_string(s));
		std::string want;
		if (s >= 0 && l >= 0 && s != l) want = std::to_string(l) + "- " + std::to_string(s) + "+ ";
		else if (s >= 0 && l == s) want = std::to_string(s) + "~ ";
		else if (s >= 0 && l < 0) want = "R+ " + std::to_string(s) + "+ ";
		else if (s < 0 && l >= 0) want = std::to_string(l) + "- R- ";
		if (t != want) return fail("load() from " + std::to_string(l) + " to " + std::to_string(s) + " ran '" + t + "', expected '" + want + "'");
		tr = &junk;
	}
	// equal buffers iff equal activity
	for (int a = -1; a < N; ++a) for (int b = -1; b < N; ++b) {
		std::string junk; tr = &junk; WM::FSM::Instance x, y; WM::FSM::Instance::SerialBuffer bx, by;
		{ ffsm2::detail::BitWriteStreamT<WM::FSM::Instance::SerialBuffer::BIT_CAPACITY> ws{bx}; ws.template write<1>(a >= 0 ? 1 : 0); if (a >= 0) ws.template write<3>(static_cast<uint8_t>(a)); } x.load(bx);
		{ ffsm2::detail::BitWriteStreamT<WM::FSM::Instance::SerialBuffer::BIT_CAPACITY> ws{by}; ws.template write<1>(b >= 0 ? 1 : 0); if (b >= 0) ws.template write<3>(static_cast<uint8_t>(b)); } y.load(by);
		WM::FSM::Instance::SerialBuffer sx, sy; x.save(sx); y.save(sy);
		if ((sx == sy) != (a == b) || (sx != sy) != (a != b)) return fail("buffers of states " + std::to_string(a) + " and " + std::to_string(b) + " compare wrongly");
	}
	// automatic
	for (int s = 0; s < N; ++s) for (int l = 0; l < N; ++l) {
		std::string junk, t; tr = &junk; WA::FSM::Instance saver, loader;
		WA::FSM::Instance::SerialBuffer b0; { ffsm2::detail::BitWriteStreamT<WA::FSM::Instance::SerialBuffer::BIT_CAPACITY> ws{b0}; ws.template write<1>(1); ws.template write<3>(static_cast<uint8_t>(s)); } saver.load(b0);
		WA::FSM::Instance::SerialBuffer b1; { ffsm2::detail::BitWriteStreamT<WA::FSM::Instance::SerialBuffer::BIT_CAPACITY> ws{b1}; ws.template write<1>(1); ws.template write<3>(static_cast<uint8_t>(l)); } loader.load(b1);
		WA::FSM::Instance::SerialBuffer buf; tr = &t; saver.save(buf); loader.load(buf);
		if (loader.activeStateId() != s) return fail("automatic load(): loader ends in " + std::to_string(loader.activeStateId()) + ", saver was in " + std::to_string(s));
		const std::string want = s != l ? std::to_string(l) + "- " + std::to_string(s) + "+ " : std::to_string(s) + "~ ";
		if (t != want) return fail("automatic load() from " + std::to_string(l) + " to " + std::to_string(s) + " ran '" + t + "', expected '" + want + "'");
		tr = &junk;
	}
	return 0;
}
