// Native replay for C18 (alignment): built with -fsanitize=alignment -fno-sanitize-recover; an int payload travels through
// changeWith() / a plan task on the REAL header.  A misaligned store aborts the program (non-zero exit).
#define FFSM2_ENABLE_PLANS
#define FFSM2_ENABLE_TRANSITION_HISTORY
#include FFSM2_HEADER
#include <cstdio>
using M = ffsm2::MachineT<ffsm2::Config::PayloadT<int>>;
struct A; struct B;
using FSM = M::PeerRoot<A, B>;
struct A : FSM::State { void update(FullControl& c) { c.succeed(); } };
struct B : FSM::State {};
int main() {
	FSM::Instance m;
	m.changeWith<B>(7);
	m.update();
	m.plan().changeWith<B, A>(9);
	m.succeed<B>();
	m.update();
	std::printf("{\"note\": \"no misaligned access observed\"}\n");
	return 0;
}
