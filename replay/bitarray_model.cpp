// Native replay driver for BitArrayT<CAP>: runs operation sequences on the REAL template from /repo against a
// std::vector<bool> model and reports the first divergence of get()/empty().  Used only to turn a failed
// CBMC obligation into a concrete failing input on the real code; it is not the deciding check.
#define FFSM2_ENABLE_PLANS
#include FFSM2_HEADER
#include <cstdio>
#include <vector>
#include <string>
#ifndef CAP
#define CAP 12
#endif
using BA = ffsm2::detail::BitArrayT<CAP>;
static std::string hist;
static unsigned rnd_state = 12345u;
static unsigned rnd() { rnd_state = rnd_state * 1664525u + 1013904223u; return rnd_state >> 8; }
static int check(const BA& a, const std::vector<bool>& m, const char* when) {
	bool any = false;
	for (unsigned i = 0; i < CAP; ++i) {
		any = any || m[i];
		if (a.get(i) != m[i]) { std::printf("{\"capacity\": %d, \"history\": \"%s\", \"divergence\": \"get(%u) returns %d, model says %d (%s)\"}\n", CAP, hist.c_str(), i, (int) a.get(i), (int) m[i], when); return 1; }
	}
	if (a.empty() != !any) { std::printf("{\"capacity\": %d, \"history\": \"%s\", \"divergence\": \"empty() returns %d, model says %d (%s)\"}\n", CAP, hist.c_str(), (int) a.empty(), (int) !any, when); return 1; }
	return 0;
}
static int run(unsigned seed, unsigned len) {
	rnd_state = seed; hist.clear();
	BA a, b; std::vector<bool> m(CAP, false), mb(CAP, false);
	if (check(a, m, "after construction")) return 1;
	for (unsigned s = 0; s < len; ++s) {
		unsigned op = rnd() % 8, i = rnd() % CAP;
		char buf[48];
		switch (op) {
		case 0: case 1: a.set(i);   m[i] = true;  std::snprintf(buf, sizeof buf, "set(%u);", i); break;
		case 2: case 3: a.clear(i); m[i] = false; std::snprintf(buf, sizeof buf, "clear(%u);", i); break;
		case 4: a.set();   for (unsigned k = 0; k < CAP; ++k) m[k] = true;  std::snprintf(buf, sizeof buf, "set();"); break;
		case 5: a.clear(); for (unsigned k = 0; k < CAP; ++k) m[k] = false; std::snprintf(buf, sizeof buf, "clear();"); break;
		case 6: b.set(i); mb[i] = true; std::snprintf(buf, sizeof buf, "b.set(%u);", i); break;
		default: a &= b; for (unsigned k = 0; k < CAP; ++k) m[k] = m[k] && mb[k]; std::snprintf(buf, sizeof buf, "a&=b;"); break;
		}
		hist += buf;
		if (check(a, m, "after last operation")) return 1;
	}
	return 0;
}
int main() {
	// structured scenarios first: set-all then clear every index; fill by index then clear-all
	{ hist = "set();clear(i) for all i;"; BA a; std::vector<bool> m(CAP, false); a.set(); for (unsigned i = 0; i < CAP; ++i) a.clear(i); if (check(a, m, "set-all then clear each index")) return 1; }
	{ hist = "set(i) for all i;clear();"; BA a; std::vector<bool> m(CAP, false); for (unsigned i = 0; i < CAP; ++i) a.set(i); a.clear(); if (check(a, m, "set each index then clear-all")) return 1; }
	for (unsigned seed = 1; seed <= 400; ++seed) if (run(seed, 24)) return 1;
	return 0;
}
