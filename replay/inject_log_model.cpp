// Native replay driver for C15 (injection order) and C16 (logging): a REAL machine whose state has three injections; every
// callback and every logger record is appended to one trace, which is then checked against the specified order.
#define FFSM2_ENABLE_PLANS
#define FFSM2_ENABLE_LOG_INTERFACE
#ifdef VERBOSE
#define FFSM2_ENABLE_VERBOSE_DEBUG_LOG
#endif
#include FFSM2_HEADER
#include <cstdio>
#include <string>
#include <vector>
using ffsm2::StateID;
struct Ev { int x; };
using M = ffsm2::Machine;
#ifdef PEER
struct R {}; struct A; struct B;
using FSM = M::PeerRoot<A, B>;
#else
struct R; struct A; struct B;
using FSM = M::Root<R, A, B>;
#endif
static std::vector<std::string> tr;
static void t(const std::string& s) { tr.push_back(s); }
static std::string veto;      // the guard callback (e.g. "I2.entryGuard") that cancels the pending transition, if any
#define CB(N) \
	void entryGuard(GuardControl& c) { t(N ".entryGuard"); if (veto == N ".entryGuard") c.cancelPendingTransition(); } void enter(PlanControl&) { t(N ".enter"); } void reenter(PlanControl&) { t(N ".reenter"); } \
	void preUpdate(FullControl&) { t(N ".preUpdate"); } void update(FullControl&) { t(N ".update"); } void postUpdate(FullControl&) { t(N ".postUpdate"); } \
	void preReact(const Ev&, FullControl&) { t(N ".preReact"); } void react(const Ev&, FullControl&) { t(N ".react"); } void postReact(const Ev&, FullControl& c) { t(N ".postReact"); (void) c; } \
	void exitGuard(GuardControl& c) { t(N ".exitGuard"); if (veto == N ".exitGuard") c.cancelPendingTransition(); } void exit(PlanControl&) { t(N ".exit"); }
struct I1 : FSM::State { CB("I1") }; struct I2 : FSM::State { CB("I2") }; struct I3 : FSM::State { CB("I3") };
#ifndef PEER
#ifdef SPARSE_HEAD
// a head that defines only one of the two plan outcome callbacks (non-verbose logging decides per callback whether the class defines it)
struct R : FSM::State { void planFailed(FullControl&) { t("R.planFailed"); } };
#else
struct R : FSM::State { void planSucceeded(FullControl&) { t("R.planSucceeded"); } void planFailed(FullControl&) { t("R.planFailed"); } };
#endif
#endif
struct A : FSM::StateT<I1, I2, I3> { CB("A")
	void query(Ev&, ConstControl&) const { t("A.query"); } };
struct B : FSM::State { void preUpdate(FullControl& c) { t("B.preUpdate"); c.changeTo<A>(); } void update(FullControl& c) { t("B.update"); c.changeTo<A>(); c.succeed(ffsm2::StateID{0}); c.fail(); } void entryGuard(GuardControl& c) { t("B.entryGuard"); (void) c; } };
struct Log : FSM::Instance::Logger {
	void recordMethod(const ffsm2::EmptyContext&, const StateID o, const Method m) override { t("LOG:" + std::to_string(o == ffsm2::INVALID_STATE_ID ? -1 : o) + ":" + ffsm2::methodName(m)); }
	void recordTransition(const ffsm2::EmptyContext&, const StateID o, const StateID d) override { t("LOGT:" + std::to_string(o == ffsm2::INVALID_STATE_ID ? -1 : o) + ">" + std::to_string(d)); }
	void recordTaskStatus(const ffsm2::EmptyContext&, const StateID o, const StatusEvent e) override { t("LOGS:" + std::to_string(o) + ":" + std::to_string(static_cast<int>(e))); }
	void recordCancelledPending(const ffsm2::EmptyContext&, const StateID o) override { t("LOGC:" + std::to_string(o)); }
};
static int fail(const std::string& s) { std::string all; for (auto& x : tr) all += x + " "; std::printf("{\"divergence\": \"%s\", \"trace\": \"%s\"}\n", s.c_str(), all.c_str()); return 1; }
static int pos(const std::string& s, size_t from = 0) { for (size_t i = from; i < tr.size(); ++i) if (tr[i] == s) return static_cast<int>(i); return -1; }
static int order(const char* kind, bool pre) {
	const std::string k = kind;
	const int a = pos("I1." + k), b = pos("I2." + k), c = pos("I3." + k), s = pos("A." + k);
	if (a < 0 || b < 0 || c < 0 || s < 0) return fail("a callback of kind " + k + " was not delivered to every injection and the state");
	if (pre ? !(a < b && b < c && c < s) : !(s < c && c < b && b < a)) return fail("injections and state run in the wrong order for " + k);
	int cnt = 0; for (auto& x : tr) if (x == "I2." + k) ++cnt; if (cnt != 1) return fail(k + " delivered " + std::to_string(cnt) + " times to an injection");
	return 0;
}
static bool ends(const std::string& x, const std::string& m) { return x.size() > m.size() + 1 && x.compare(x.size() - m.size() - 1, m.size() + 1, "." + m) == 0; }
static int logs_faithful(bool withLogger) {
	for (size_t i = 0; i < tr.size(); ++i) {
		if (tr[i].compare(0, 3, "LOG") == 0 && !withLogger) return fail("record without a logger attached");
		// a method record of state A (which defines every callback) is immediately followed by the first callback of that delivery
		if (tr[i].compare(0, 6, "LOG:0:") == 0) {
			const std::string m = tr[i].substr(6);
			if (i + 1 >= tr.size() || !ends(tr[i + 1], m) || !(tr[i + 1][0] == 'I' || tr[i + 1][0] == 'A')) return fail("method record '" + tr[i] + "' is not followed by that delivery");
		}
		// with a logger, every delivery to A starts right after its method record (before any user code of the delivery)
		if (withLogger && (tr[i][0] == 'I' || tr[i].compare(0, 2, "A.") == 0) && tr[i] != "A.query") {
			const std::string m = tr[i].substr(tr[i].find('.') + 1);
			const bool block_start = i == 0 || !ends(tr[i - 1], m) || tr[i - 1].compare(0, 3, "LOG") == 0;
			if (block_start && (i == 0 || tr[i - 1] != "LOG:0:" + m)) return fail("delivery '" + tr[i] + "' is not immediately preceded by its method record");
		}
	}
	return 0;
}
int main() {
	for (int withLogger = 0; withLogger <= 1; ++withLogger) {
		Log log; std::vector<std::string> runs[2];
		tr.clear();
		{
			FSM::Instance m{withLogger ? &log : nullptr};
			if (order("entryGuard", true) || order("enter", true)) return 1;
			tr.clear(); m.update(); if (order("preUpdate", true) || order("update", true) || order("postUpdate", false) || logs_faithful(withLogger)) return 1;
			tr.clear(); Ev e{1}; m.react(e); if (order("preReact", true) || order("react", true) || order("postReact", false) || logs_faithful(withLogger)) return 1;
			tr.clear(); m.immediateChangeTo<A>(); if (order("reenter", true) || logs_faithful(withLogger)) return 1;
			tr.clear(); m.immediateChangeTo<B>(); if (order("exit", false) || logs_faithful(withLogger)) return 1;
			if (withLogger && pos("LOGT:-1>1") < 0) return fail("changeTo produced no transition record with the caller as origin");
			// C02 / C03: a veto from any guard of the destination -- the state's own or an injected one -- leaves the machine where it is
			for (const char* g : {"I1.entryGuard", "I2.entryGuard", "I3.entryGuard", "A.entryGuard"}) {
				tr.clear(); veto = g; m.immediateChangeTo<A>(); veto.clear();
				if (m.activeStateId() != 1 || pos("A.enter") >= 0) return fail(std::string("transition to A applied although ") + g + " cancelled it");
				if (withLogger && pos("LOGC:0") < 0) return fail(std::string("no cancellation record for the veto of ") + g);
			}
			m.immediateChangeTo<A>();
			for (const char* g : {"I1.exitGuard", "I2.exitGuard", "I3.exitGuard", "A.exitGuard"}) {
				tr.clear(); veto = g; m.immediateChangeTo<B>(); veto.clear();
				if (m.activeStateId() != 0 || pos("A.exit") >= 0) return fail(std::string("transition away from A applied although ") + g + " cancelled it");
			}
			m.immediateChangeTo<B>();
#ifndef PEER
			tr.clear(); m.plan().change<B, A>(); m.update();
			{ int n = 0; for (auto& x : tr) if (x == "LOGT:1>0") ++n; if (withLogger && n != 2) return fail("2 changeTo() calls of state 1 in one cycle produced " + std::to_string(n) + " transition records"); }
			if (withLogger && (pos("LOGT:1>0") < 0 || pos("LOGS:1:1") < 0)) return fail("changeTo / fail from a callback not recorded");
			if (withLogger && pos("LOGS:0:0") < 0) return fail("succeed(0) called by state 1 is not recorded as a success of state 0");
			if (pos("R.planFailed") < 0) return fail("planFailed not delivered");
			if (withLogger && pos("LOG:-1:planFailed") != pos("R.planFailed") - 1) return fail("planFailed delivery is not preceded by a planFailed method record");
#else
			tr.clear(); m.plan().change<B, A>(); m.update();
			{ int n = 0; for (auto& x : tr) if (x == "LOGT:1>0") ++n; if (withLogger && n != 2) return fail("2 changeTo() calls of state 1 in one cycle produced " + std::to_string(n) + " transition records"); }
#ifdef VERBOSE
			if (withLogger && pos("LOG:-1:planFailed") < 0) return fail("verbose: the head-less apex did not record planFailed (trace has: see trace)");
			if (withLogger && pos("LOG:-1:planSucceeded") >= 0) return fail("verbose: the head-less apex recorded planSucceeded for a planFailed delivery");
#endif
#endif
		}
	}
	return 0;
}
