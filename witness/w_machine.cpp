// Witness translation unit: one user machine whose states define every callback, every public entry point
// called once so that clang instantiates the member functions.  Contains no logic of its own.
#define FFSM2_ENABLE_PLANS
#define FFSM2_ENABLE_TRANSITION_HISTORY
#ifndef W_NO_LOG
#define FFSM2_ENABLE_LOG_INTERFACE
#endif
#ifdef W_VERBOSE
#define FFSM2_ENABLE_VERBOSE_DEBUG_LOG
#endif
#define FFSM2_DISABLE_TYPEINDEX
#include FFSM2_HEADER

#ifndef W_LIMIT
#define W_LIMIT 3
#endif
#ifndef W_TASKS
#define W_TASKS 5
#endif
// W_P8: a payload type larger than its alignment (the payload storage of transitions and tasks is sized and aligned by the type)
#ifdef W_P8
struct P8 { int a; int b; };
#define W_PAYLOAD P8
#endif
#ifndef W_PAYLOAD
#define W_PAYLOAD int
#endif
// W_VOID: the default configuration (no payload type): the payload-free specialisations TransitionT<void>, TaskT<void>,
// PlanDataT<ArgsT<.., void>>, FullControlT<ArgsT<.., void>> are instantiated instead; W_P(x) drops the payload calls
#ifdef W_VOID
#define W_P(...)
#else
#define W_P(...) __VA_ARGS__
#endif

struct Ctx { int v; };
struct Ev { int x; };

// W_VALCTX: the context is held by value (then machines are also move-constructible; with a reference context the move
// constructor of the core does not compile)
#ifdef W_VALCTX
#define W_CTX Ctx
#else
#define W_CTX Ctx&
#endif
using Cfg = ffsm2::Config::ContextT<W_CTX>
#ifndef W_VOID
	::PayloadT<W_PAYLOAD>
#endif
	::TaskCapacityN<W_TASKS>::SubstitutionLimitN<W_LIMIT>
#ifdef W_MANUAL
	::ManualActivation
#endif
	;
using M = ffsm2::MachineT<Cfg>;

struct R; struct A; struct B; struct C;
#ifdef W_MORE_STATES
struct D; struct E; struct F; struct G;
using FSM = M::Root<R, A, B, C, D, E, F, G>;
#else
using FSM = M::Root<R, A, B, C>;
#endif

// every callback defined: calls to them are replaced by contract stubs standing for arbitrary user code
#define W_ALL_CALLBACKS \
	void entryGuard(GuardControl& control) { (void) control; } \
	void enter(PlanControl& control) { (void) control; } \
	void reenter(PlanControl& control) { (void) control; } \
	void preUpdate(FullControl& control) { (void) control; } \
	void update(FullControl& control) { (void) control; } \
	void postUpdate(FullControl& control) { (void) control; } \
	void preReact(const Ev& event, FullControl& control) { (void) event; (void) control; } \
	void react(const Ev& event, FullControl& control) { (void) event; (void) control; } \
	void postReact(const Ev& event, FullControl& control) { (void) event; (void) control; } \
	void query(Ev& event, ConstControl& control) const { (void) event; (void) control; } \
	void exitGuard(GuardControl& control) { (void) control; } \
	void exit(PlanControl& control) { (void) control; }

struct R : FSM::State { W_ALL_CALLBACKS
	void planSucceeded(FullControl& control) { (void) control; }
	void planFailed(FullControl& control) { (void) control; } };
struct A : FSM::State { W_ALL_CALLBACKS };
// B exercises the whole control API so that its member functions are instantiated (the bodies below are user code:
// they are never lowered, calls to them are replaced by contract stubs)
struct B : FSM::State {
	void entryGuard(GuardControl& control) { control.cancelPendingTransition(); (void) control.pendingTransition(); (void) control.currentTransition(); W_P((void) control.pendingTransition().payload();) }
	void update(FullControl& control) {
		control.changeTo(ffsm2::StateID{1}); control.changeTo<A>(); W_P(control.changeWith(ffsm2::StateID{1}, W_PAYLOAD{}); control.changeWith<A>(W_PAYLOAD{});)
		control.succeed(); control.fail(); control.succeed(ffsm2::StateID{1}); control.fail(ffsm2::StateID{1}); control.succeed<A>(); control.fail<A>();
		(void) control.isActive(ffsm2::StateID{1}); (void) control.isActive<A>(); (void) control.stateId(); (void) control.context(); (void) control._(); (void) control.request();
		(void) control.previousTransitions();
		auto p = control.plan(); (void) p.change(ffsm2::StateID{0}, ffsm2::StateID{1}); W_P((void) p.changeWith(ffsm2::StateID{0}, ffsm2::StateID{1}, W_PAYLOAD{});) p.clear();
		(void) static_cast<bool>(p); for (auto it = p.begin(); it; ++it) { W_P((void) it->payload();) it.remove(); }
		const FullControl& cc = control; auto cp = cc.plan(); (void) static_cast<bool>(cp); for (auto it = cp.begin(); it; ++it) (void) it->origin;
	}
	void enter(PlanControl& control) { (void) control.currentTransition(); auto p = control.plan(); (void) p.change<A, B>(); }
	void query(Ev&, ConstControl& control) const { (void) control.isActive(ffsm2::StateID{1}); (void) control.isActive<A>(); (void) control.stateId(); (void) control.context(); (void) control._(); (void) control.request(); (void) control.previousTransitions();
		/* ConstControlT::plan() cannot be instantiated: CPlanT's constructor is private and ConstControlT is not a friend */ }
};
struct Inj1 : FSM::State { W_ALL_CALLBACKS };
struct Inj2 : FSM::State { W_ALL_CALLBACKS };
struct Inj3 : FSM::State { W_ALL_CALLBACKS };
struct C : FSM::StateT<Inj1, Inj2, Inj3> { W_ALL_CALLBACKS };
#ifdef W_MORE_STATES
struct D : FSM::State {}; struct E : FSM::State {}; struct F : FSM::State {}; struct G : FSM::State {};
#endif

#ifndef W_NO_LOG
using WLogger = FSM::Instance::Logger;
#else
using WLogger = void;
#endif
void w_drive(Ctx& c, Ev& e, WLogger* l W_P(, const W_PAYLOAD& p)) {
	FSM::Instance m{c};
#ifdef W_MANUAL
	m.enter();
	(void) m.isActive();
#endif
	m.update(); m.react(e); m.query(e);
	m.changeTo<B>(); m.immediateChangeTo<B>();
	W_P(m.changeWith<C>(p); m.immediateChangeWith<C>(p);)
	(void) m.activeStateId(); (void) m.isActive<A>(); (void) m.isActive(ffsm2::StateID{1});
	m.plan().change<A, B>(); W_P(m.plan().changeWith<A, B>(p);) m.plan().clear();
	(void) static_cast<bool>(m.plan());
	for (auto it = m.plan().begin(); it; ++it) it.remove();
	const FSM::Instance& cm = m;
	for (auto it = cm.plan().begin(); it; ++it) (void) it->origin;
	{ auto cp = cm.plan(); (void) static_cast<bool>(cp); (void) cp.first(); (void) cp.last(); }   // (the non-const PlanT::first()/last() are declared but never defined)
	m.succeed<A>(); m.fail<A>();
	(void) m.previousTransition(); (void) m.replayTransition(1);
#ifdef W_MANUAL
	m.exit(); m.replayEnter(1); m.exit();
#endif
#ifndef W_NO_LOG
	m.attachLogger(l);
#else
	(void) l;
#endif
	(void) m.context(); (void) m.access<A>();
	FSM::Instance m2{m};
#ifdef W_VALCTX
	FSM::Instance m3{static_cast<FSM::Instance&&>(m2)};
	FSM::Instance m4{Ctx{7}};       // construction from an rvalue context
	(void) m3; (void) m4;
#endif
	// move construction does not compile with a reference context (CoreT move ctor binds Ctx& to move(other.context)): not part of this witness
}
