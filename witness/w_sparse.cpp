// Witness translation unit: states that define only SOME callbacks.  The library decides per state type and per callback
// whether there is user code to call and (non-verbose logging) whether a method record is due: `Head::cb` resolves to the
// empty base's member when the state does not define cb, and log(&Head::cb, ...) picks its overload by the member pointer's
// host type.  w_machine's states define every callback; this witness supplies the other half of that case split:
//   Bare            defines nothing
//   O<Callback>     defines exactly that callback
//   R0 / R1         root heads defining only planFailed / only planSucceeded
// Contains no logic of its own.
#define FFSM2_ENABLE_PLANS
#define FFSM2_ENABLE_TRANSITION_HISTORY
#define FFSM2_ENABLE_LOG_INTERFACE
#ifdef W_VERBOSE
#define FFSM2_ENABLE_VERBOSE_DEBUG_LOG
#endif
#define FFSM2_DISABLE_TYPEINDEX
#include FFSM2_HEADER

struct Ctx { int v; };
struct Ev { int x; };

using Cfg = ffsm2::Config::ContextT<Ctx&>::PayloadT<int>::TaskCapacityN<5>::SubstitutionLimitN<3>;
using M = ffsm2::MachineT<Cfg>;

// one small machine per translation unit (a machine over all 13 state types makes clang's JSON AST 9 GB):
//   -DW_STATE=<state type>  (default OEnter)    -DW_HEAD=R0|R1  (default R0)
#ifndef W_STATE
#define W_STATE OEnter
#endif
#ifndef W_HEAD
#define W_HEAD R0
#endif
struct R0; struct R1; struct Bare; struct OEntryGuard; struct OEnter; struct OReenter; struct OPreUpdate; struct OUpdate; struct OPostUpdate;
struct OPreReact; struct OReact; struct OPostReact; struct OQuery; struct OExitGuard; struct OExit;
using FSM = M::Root<W_HEAD, Bare, W_STATE>;

struct R0 : FSM::State { void planFailed(FullControl& control) { (void) control; } };
struct R1 : FSM::State { void planSucceeded(FullControl& control) { (void) control; } };
struct Bare : FSM::State {};
struct OEntryGuard : FSM::State { void entryGuard(GuardControl& control) { (void) control; } };
struct OEnter : FSM::State { void enter(PlanControl& control) { (void) control; } };
struct OReenter : FSM::State { void reenter(PlanControl& control) { (void) control; } };
struct OPreUpdate : FSM::State { void preUpdate(FullControl& control) { (void) control; } };
struct OUpdate : FSM::State { void update(FullControl& control) { (void) control; } };
struct OPostUpdate : FSM::State { void postUpdate(FullControl& control) { (void) control; } };
struct OPreReact : FSM::State { void preReact(const Ev& event, FullControl& control) { (void) event; (void) control; } };
struct OReact : FSM::State { void react(const Ev& event, FullControl& control) { (void) event; (void) control; } };
struct OPostReact : FSM::State { void postReact(const Ev& event, FullControl& control) { (void) event; (void) control; } };
struct OQuery : FSM::State { void query(Ev& event, ConstControl& control) const { (void) event; (void) control; } };
struct OExitGuard : FSM::State { void exitGuard(GuardControl& control) { (void) control; } };
struct OExit : FSM::State { void exit(PlanControl& control) { (void) control; } };

template <typename TFSM>
void w_drive(Ctx& c, Ev& e, typename TFSM::Instance::Logger* l) {
	typename TFSM::Instance m{c};
	m.attachLogger(l);
	m.update(); m.react(e); m.query(e);
	m.changeTo(ffsm2::StateID{0}); m.immediateChangeTo(ffsm2::StateID{0});
	m.plan().change(ffsm2::StateID{0}, ffsm2::StateID{0});
	m.succeed(ffsm2::StateID{0}); m.fail(ffsm2::StateID{0});
	m.update();
}
template void w_drive<FSM>(Ctx&, Ev&, FSM::Instance::Logger*);
