// Witness translation unit: instantiates the container / bit-stream templates of FFSM2 so that
// clang materialises their member functions. Contains no logic of its own.
#define FFSM2_ENABLE_PLANS
#define FFSM2_ENABLE_SERIALIZATION
#define FFSM2_DISABLE_TYPEINDEX
#include FFSM2_HEADER

#ifndef W_BITS
#define W_BITS 12
#endif
#ifndef W_CAP
#define W_CAP 5
#endif
#ifndef W_STREAM
#define W_STREAM 46
#endif

using namespace ffsm2;
using namespace ffsm2::detail;

struct Elem8 { uint32_t a; uint32_t b; };

uint32_t w_util(uint32_t v, Long x) {
	return bitWidth(v) + contain(x, 8u) + min(x, Short{3}) + max(x, Short{3});
}

void w_bitarray(BitArrayT<W_BITS>& a, const BitArrayT<W_BITS>& b, Long i) {
	BitArrayT<W_BITS> c;
	a.set(); a.clear(); (void) a.empty(); (void) a.get(i); a.set(i); a.clear(i); (void) (a & b); a &= b;
}

template <typename T>
void w_static(StaticArrayT<T, W_CAP>& s, const StaticArrayT<T, W_CAP>& cs, const T& v, Long i) {
	StaticArrayT<T, W_CAP> d;
	StaticArrayT<T, W_CAP> e{v};
	s[i] = v; (void) cs[i]; (void) s.count(); s.fill(v); s.clear();
	// StaticArrayT::begin()/end() cannot be instantiated (IteratorT's constructor is private and befriends
	// DynamicArrayT only) and empty() needs operator!= on the element type: not part of the witness.
}
void w_static_empty(const StaticArrayT<uint8_t, W_CAP>& cs) { (void) cs.empty(); }
template void w_static<uint8_t >(StaticArrayT<uint8_t , W_CAP>&, const StaticArrayT<uint8_t , W_CAP>&, const uint8_t &, Long);
template void w_static<TaskLink>(StaticArrayT<TaskLink, W_CAP>&, const StaticArrayT<TaskLink, W_CAP>&, const TaskLink&, Long);

template <typename T>
void w_dynamic(DynamicArrayT<T, W_CAP>& s, const DynamicArrayT<T, W_CAP>& cs, const T& v, Long i) {
	DynamicArrayT<T, W_CAP> d;
	(void) s.emplace(v); s[i] = v; (void) cs[i]; (void) s.count(); s.clear(); (void) s.empty();
	s += v; s += cs;
	for (auto& x : s) (void) x;
	for (const auto& x : cs) (void) x;
}
template void w_dynamic<uint8_t>(DynamicArrayT<uint8_t, W_CAP>&, const DynamicArrayT<uint8_t, W_CAP>&, const uint8_t&, Long);
template void w_dynamic<Elem8  >(DynamicArrayT<Elem8  , W_CAP>&, const DynamicArrayT<Elem8  , W_CAP>&, const Elem8  &, Long);

void w_stream(StreamBufferT<W_STREAM>& buf, const StreamBufferT<W_STREAM>& other) {
	buf.clear(); (void) (buf == other); (void) (buf != other); (void) buf.data();
	BitWriteStreamT<W_STREAM> ws{buf};
	ws.write< 5>(1); ws.write<13>(2); ws.write<27>(3);
	(void) ws.cursor();
	BitReadStreamT<W_STREAM> rs{buf};
	(void) rs.read< 5>(); (void) rs.read<13>(); (void) rs.read<27>();
	(void) rs.cursor();
}
