// Witness translation unit for serialization (save / load), automatic and manual activation.
// (FFSM2_ENABLE_SERIALIZATION cannot be combined with FFSM2_ENABLE_TRANSITION_HISTORY on the pinned tree: finding F7.)
#define FFSM2_ENABLE_PLANS
#define FFSM2_ENABLE_SERIALIZATION
#define FFSM2_ENABLE_LOG_INTERFACE
#define FFSM2_DISABLE_TYPEINDEX
#include FFSM2_HEADER

struct Ctx { int v; };
template <typename TCfg> struct W {
	using M = ffsm2::MachineT<TCfg>;
	struct R; struct A; struct B; struct C; struct D; struct E;
	using FSM = typename M::template Root<R, A, B, C, D, E>;
	struct R : FSM::State { void enter(typename FSM::State::PlanControl& control) { (void) control; } void exit(typename FSM::State::PlanControl& control) { (void) control; } };
	struct A : FSM::State { void enter(typename FSM::State::PlanControl& control) { (void) control; } void exit(typename FSM::State::PlanControl& control) { (void) control; }
	                        void reenter(typename FSM::State::PlanControl& control) { (void) control; } void entryGuard(typename FSM::State::GuardControl& control) { (void) control; } };
	struct B : FSM::State {}; struct C : FSM::State {}; struct D : FSM::State {}; struct E : FSM::State {};
};
using WA = W<ffsm2::Config::ContextT<Ctx&>>;
using WM = W<ffsm2::Config::ContextT<Ctx&>::ManualActivation>;

void w_serial(Ctx& c) {
	WA::FSM::Instance a{c};
	WA::FSM::Instance::SerialBuffer ba;
	a.save(ba); a.load(ba);
	WM::FSM::Instance m{c};
	WM::FSM::Instance::SerialBuffer bm;
	m.enter(); m.save(bm); m.load(bm); m.exit(); m.save(bm); m.load(bm);
	(void) (ba == ba); (void) (bm != bm);
}
