// Witness: a head-less (PeerRoot) machine with verbose logging: instantiates S_<N, Args, EmptyT<Args>> (the apex without a head).
#define FFSM2_ENABLE_PLANS
#define FFSM2_ENABLE_TRANSITION_HISTORY
#define FFSM2_ENABLE_VERBOSE_DEBUG_LOG
#define FFSM2_DISABLE_TYPEINDEX
#include FFSM2_HEADER
struct Ctx { int v; };
struct Ev { int x; };
using M = ffsm2::MachineT<ffsm2::Config::ContextT<Ctx&>::PayloadT<int>::TaskCapacityN<5>>;
struct A; struct B; struct C;
using FSM = M::PeerRoot<A, B, C>;
struct A : FSM::State { void enter(PlanControl& control) { (void) control; } void update(FullControl& control) { (void) control; } };
struct B : FSM::State {};
struct C : FSM::State {};
void w_peer(Ctx& c, Ev& e, FSM::Instance::Logger* l) {
	FSM::Instance m{c, l};
	m.update(); m.react(e); m.query(e); m.immediateChangeTo<B>(); m.plan().change<A, B>(); m.succeed<A>(); m.fail<A>();
}
