// Static obligations about the configuration aliases (Config::ContextT<> / ManualActivation / SubstitutionLimitN<> / TaskCapacityN<> /
// PayloadT<>): each alias changes exactly its own slot and keeps the others, in any order, and the machine built from the
// configuration sees those values.  Evaluated by the real compilers on /repo's current header; one line per fact.
#define FFSM2_ENABLE_PLANS
#include FFSM2_HEADER
#include <cstdio>
#include <type_traits>
struct Ctx { int v; }; struct P { int x; };
using ffsm2::Config;
template <typename C, typename TCtx, typename TAct, unsigned L, unsigned K, typename TP>
static int chk(const char* name) {
	const bool ok = std::is_same<typename C::Context, TCtx>::value && std::is_same<typename C::Activation, TAct>::value
		&& C::SUBSTITUTION_LIMIT == L && C::TASK_CAPACITY == K && std::is_same<typename C::Payload, TP>::value;
	std::printf("config %s context=%d activation=%d limit=%u capacity=%u payload=%d ok=%d\n", name, (int) std::is_same<typename C::Context, TCtx>::value,
		(int) std::is_same<typename C::Activation, TAct>::value, (unsigned) C::SUBSTITUTION_LIMIT, (unsigned) C::TASK_CAPACITY, (int) std::is_same<typename C::Payload, TP>::value, (int) ok);
	return !ok;
}
using B1 = Config::ContextT<Ctx&>::SubstitutionLimitN<7>::TaskCapacityN<9>::PayloadT<P>;
using B2 = Config::PayloadT<P>::TaskCapacityN<9>::SubstitutionLimitN<7>::ContextT<Ctx&>;
struct R; struct A; struct B; struct C;
using FSM1 = ffsm2::MachineT<B1>::Root<R, A, B, C>;
struct R : FSM1::State {}; struct A : FSM1::State {}; struct B : FSM1::State {}; struct C : FSM1::State {};
struct R0; struct A0; struct B0;
using FSM0 = ffsm2::Machine::Root<R0, A0, B0>;
struct R0 : FSM0::State {}; struct A0 : FSM0::State {}; struct B0 : FSM0::State {};
int main() {
	int bad = 0;
	bad += chk<B1, Ctx&, ffsm2::Automatic, 7, 9, P>("base.order1");
	bad += chk<B2, Ctx&, ffsm2::Automatic, 7, 9, P>("base.order2");
	bad += chk<B1::ContextT<long>, long, ffsm2::Automatic, 7, 9, P>("ContextT");
	bad += chk<B1::ManualActivation, Ctx&, ffsm2::Manual, 7, 9, P>("ManualActivation");
	bad += chk<B1::SubstitutionLimitN<3>, Ctx&, ffsm2::Automatic, 3, 9, P>("SubstitutionLimitN");
	bad += chk<B1::TaskCapacityN<5>, Ctx&, ffsm2::Automatic, 7, 5, P>("TaskCapacityN");
	bad += chk<B1::PayloadT<long>, Ctx&, ffsm2::Automatic, 7, 9, long>("PayloadT");
	bad += chk<B2::ManualActivation::TaskCapacityN<5>::SubstitutionLimitN<3>, Ctx&, ffsm2::Manual, 3, 5, P>("chain");
	// what the machine is built with
	{ const bool ok = FSM1::SUBSTITUTION_LIMIT == 7 && FSM1::TASK_CAPACITY == 9 && FSM1::STATE_COUNT == 3;
	  std::printf("machine configured limit=%u capacity=%u states=%u ok=%d\n", (unsigned) FSM1::SUBSTITUTION_LIMIT, (unsigned) FSM1::TASK_CAPACITY, (unsigned) FSM1::STATE_COUNT, (int) ok); bad += !ok; }
	{ const bool ok = FSM0::SUBSTITUTION_LIMIT == 4 && FSM0::TASK_CAPACITY == FSM0::STATE_COUNT && FSM0::STATE_COUNT == 2;
	  std::printf("machine default limit=%u capacity=%u states=%u ok=%d\n", (unsigned) FSM0::SUBSTITUTION_LIMIT, (unsigned) FSM0::TASK_CAPACITY, (unsigned) FSM0::STATE_COUNT, (int) ok); bad += !ok; }
	return bad ? 1 : 0;
}
