// C18 layout probe: alignment of the payload storage inside TransitionT / TaskT and of TaskStatus inside PlanDataT, as laid out
// by the real compiler (CBMC has no alignment trap; the lowering drops #pragma pack / alignas).  Prints one line per fact.
#define FFSM2_ENABLE_PLANS
#define FFSM2_ENABLE_TRANSITION_HISTORY
#include FFSM2_HEADER
#include <cstdio>
#include <cstddef>
using namespace ffsm2::detail;
struct P16 { alignas(16) char c[16]; };
template <typename P> static int probe(const char* name) {
	using T = TransitionT<P>; using K = TaskT<P>;
	const unsigned long to = offsetof(T, storage), ko = offsetof(K, storage);
	const int t_ok = (to % alignof(P) == 0) && (alignof(T) >= alignof(P));
	const int k_ok = (ko % alignof(P) == 0) && (alignof(K) >= alignof(P));
	std::printf("payload=%s alignof=%lu TransitionT.storage offset=%lu alignof(TransitionT)=%lu ok=%d\n", name, (unsigned long) alignof(P), to, (unsigned long) alignof(T), t_ok);
	std::printf("payload=%s alignof=%lu TaskT.storage offset=%lu alignof(TaskT)=%lu ok=%d\n", name, (unsigned long) alignof(P), ko, (unsigned long) alignof(K), k_ok);
	return t_ok && k_ok;
}
int main() {
	probe<char>("char"); probe<short>("short"); probe<int>("int"); probe<double>("double"); probe<P16>("align16");
	std::printf("TaskStatus sizeof=%lu alignof=%lu (enum of alignment %lu inside #pragma pack(1)) ok=%d\n", (unsigned long) sizeof(TaskStatus), (unsigned long) alignof(TaskStatus),
	            (unsigned long) alignof(TaskStatus::Result), (int) (alignof(TaskStatus) >= alignof(TaskStatus::Result)));
	return 0;
}
