#!/usr/bin/env python3
"""Native replay on the real headers: turns a failed obligation into a concrete failing input.

For every family of units there is a small C++ driver under replay/ that is compiled against /repo's
*current* header with the configuration taken from the CBMC counterexample (capacity, widths, ...)
and searches for a divergence between the real code and the property's oracle.  A hit is a concrete
failing input on the real code; no hit means `no-failing-input-found` (the violation is still reported)."""
import json, os, re, subprocess, sys

HERE = os.path.dirname(os.path.abspath(__file__))
REPO = os.environ.get('FFSM2_REPO', '/repo')
HDR = {'include': (os.path.join(REPO, 'include'), '<ffsm2/machine.hpp>'),
       'development': (os.path.join(REPO, 'development'), '<ffsm2/machine_dev.hpp>')}


def trace_value(v, name):
    """last value assigned to `name` in the compacted trace of a violation entry"""
    val = None
    for st in v.get('trace') or []:
        if st.get('lhs') == name and st.get('value') is not None:
            val = st['value']
    if val is None:
        return None
    try:
        return int(str(val), 2) if re.fullmatch(r'[01]{8,}', str(val)) else int(val)
    except ValueError:
        return None


def build_and_run(driver, defines, copy, work, tag, timeout=120):
    inc, hdr = HDR.get(copy if copy in HDR else 'include')
    exe = os.path.join(work, 'replay_%s' % tag)
    # indeterminate members only show their prior memory contents reliably without optimisation
    flags = [d[1:] for d in defines if d.startswith('@')]
    defines = [d for d in defines if not d.startswith('@')]
    cmd = ['g++', '-std=c++11', '-O0' if driver == 'memory_model.cpp' else '-O1', '-I', inc, '-DFFSM2_HEADER=' + hdr] + flags + ['-D' + d for d in defines] + [os.path.join(HERE, 'replay', driver), '-o', exe]
    p = subprocess.run(cmd, stdout=subprocess.PIPE, stderr=subprocess.PIPE)
    if p.returncode != 0:
        return None, {'build_failed': p.stderr.decode()[-1500:], 'cmd': ' '.join(cmd)}
    try:
        r = subprocess.run([exe], stdout=subprocess.PIPE, stderr=subprocess.PIPE, timeout=timeout)
    except subprocess.TimeoutExpired:
        return None, {'timeout': True, 'cmd': ' '.join(cmd)}
    out = r.stdout.decode(errors='replace').strip()
    err = r.stderr.decode(errors='replace').strip()
    info = {'cmd': ' '.join(cmd), 'output': out[-2000:], 'exit': r.returncode}
    if err:
        info['stderr'] = err[:1500]      # sanitizer report
    return r.returncode, info


STATIC_PROBES = {'config': 'config_probe.cpp', 'c18.layout': 'layout_probe.cpp'}


def search(prop, violations, work):
    # static obligations are evaluated on the real header by the real compilers: the probe's line *is* the failing input
    for v in violations:
        if v.get('unit') in STATIC_PROBES and v.get('description'):
            probe = STATIC_PROBES[v['unit']]
            return True, {'driver': 'static/' + probe, 'static_probe': True, 'defines': [], 'copy': 'include', 'unit': v['unit'], 'obligation': v['obligation'],
                          'output': v['description'], 'cmd': 'g++ -std=c++11 -I %s/include -DFFSM2_HEADER=<ffsm2/machine.hpp> %s/static/%s && ./a.out' % (REPO, HERE, probe)}
    tried = {}      # (driver, defines, copy) -> outcome: every driver configuration is built and run once per check
    for v in violations:
        fam = family(v['unit'])
        if prop in ('C15', 'C16') and re.search(r'^(structure|control|sparse|plans\.(Control|R_)\.|wrappers\.)', v['unit']):
            fam = fam_inject_log
        if prop == 'C12' and re.search(r'^c13\.(write|read|buffer)', v['unit']):
            fam = fam_serial_then_stream
        if prop in ('C08', 'C09') and re.search(r'^(plans|c10|c17)\.', v['unit']):
            fam = fam_planstep
        if fam is None:
            continue
        v = dict(v, prop=prop)
        plans = []
        for f in ([fam] + ([fam_planstep] if fam is fam_plan and prop == 'C18' else []) + ([fam_serial_big] if fam in (fam_serial, fam_serial_then_stream) else [])):
            driver, cfgs = f(v)
            if prop == 'C18':
                # memory safety: the same drivers under AddressSanitizer (alignment excluded: known finding F5)
                cfgs = [c + ['@-fsanitize=address,bounds', '@-fno-sanitize-recover=all', '@-g'] for c in cfgs]
            plans += [(driver, c) for c in cfgs]
        for i, (driver, defs) in enumerate(plans):
            tk = (driver, tuple(defs), v.get('copy', 'include'))
            if tk in tried:
                continue
            rc, info = build_and_run(driver, defs, v.get('copy', 'include'), work, '%s_%d' % (re.sub(r'\W', '_', v['unit']), i))
            tried[tk] = rc
            # a driver reports a divergence by exit code 1..125 (and a JSON line); death by signal is not a reproduction
            # (it would not distinguish the library from the driver)
            if rc is not None and 0 < rc < 126:
                sc = {'driver': 'replay/' + driver, 'defines': defs, 'copy': v.get('copy', 'include'), 'unit': v['unit'], 'obligation': v['obligation']}
                sc.update(info)
                try:
                    sc['failing_input'] = json.loads(info['output'].splitlines()[-1])
                except Exception:
                    pass
                return True, sc
    return False, None


def rerun(doc):
    sc = doc['scenario']
    import tempfile, shutil
    work = tempfile.mkdtemp(prefix='ffsm2replay_')
    try:
        if sc.get('static_probe'):
            exe = os.path.join(work, 'probe')
            p = subprocess.run(['g++', '-std=c++11', '-Wno-invalid-offsetof', '-I', os.path.join(REPO, 'include'), '-DFFSM2_HEADER=<ffsm2/machine.hpp>', os.path.join(HERE, sc['driver']), '-o', exe],
                               stdout=subprocess.PIPE, stderr=subprocess.PIPE)
            if p.returncode != 0:
                print(p.stderr.decode()[-800:]); return 2
            r = subprocess.run([exe], stdout=subprocess.PIPE)
            bad = [l for l in r.stdout.decode().splitlines() if l.rstrip().endswith('ok=0')]
            print('\n'.join(bad) or 'every static fact holds on the current tree')
            return 1 if bad else 0
        rc, info = build_and_run(os.path.basename(sc['driver']), sc['defines'], sc.get('copy', 'include'), work, 'rerun')
        print(info.get('output') or info)
        if rc is not None and 0 < rc < 126:
            print('replay reproduces the violation on the real code')
            return 1
        print('replay does not reproduce on the current tree')
        return 0
    finally:
        shutil.rmtree(work, ignore_errors=True)


def _caps(v, names, extra):
    out = []
    for n in names:
        c = trace_value(v, n)
        if c:
            out.append(c)
    for e in extra:
        if e not in out:
            out.append(e)
    return out


def fam_bitarray(v):
    return 'bitarray_model.cpp', [['CAP=%d' % c] for c in _caps(v, ['BitArrayT__NCapacity'], [12, 1, 7, 8, 9, 255])]


def fam_bitstream(v):
    return 'bitstream_model.cpp', [['CAP=%d' % c] for c in _caps(v, ['BitWriteStreamT__NBitCapacity', 'BitReadStreamT__NBitCapacity'], [255, 46, 9])]


def fam_dynarray(v):
    return 'dynarray_model.cpp', [['CAP=%d' % c] for c in _caps(v, ['DynamicArrayT__NCapacity', 'StaticArrayT__NCapacity'], [5, 16, 1, 255])]


ORACLE_MASK = {'C01': 1, 'C02': 2, 'C03': 2, 'C04': 6, 'C11': 10, 'C06': 48, 'C07': 32, 'C05': 64, 'C14': 1 | 64, 'C15': 0, 'C16': 128, 'C18': 0xFF}


def fam_machine(v):
    mask = ORACLE_MASK.get(v.get('prop'), 0xFF)
    # (BUDGET_S: seconds of script enumeration per configuration)
    return 'machine_model.cpp', [['NS=3', 'LIMIT=2', 'ORACLES=%d' % mask, 'DEPTH=7', 'BUDGET_S=15'], ['NS=3', 'LIMIT=1', 'ORACLES=%d' % mask, 'DEPTH=7', 'BUDGET_S=10'],
                                 ['NS=4', 'LIMIT=3', 'ORACLES=%d' % mask, 'DEPTH=6', 'BUDGET_S=10']] + (
        # C05: the root reports a task status from its own update() / react() -- the active state still gets every callback of the cycle
        [['NS=3', 'LIMIT=2', 'ORACLES=%d' % mask, 'DEPTH=7', 'BUDGET_S=10', 'ROOT_REPORTS']] if v.get('prop') == 'C05' else [])


def fam_memory(v):
    return 'memory_model.cpp', [[]]


def fam_plan(v):
    return 'plan_model.cpp', [['CAP=%d' % c] for c in _caps(v, ['TaskListT__NCapacity'], [4, 1, 2, 7])]


def fam_planstep(v):
    void = v['unit'].endswith('.void')
    cfgs = []
    for c in _caps(v, ['TaskListT__NCapacity'], [4, 2, 1]):
        cfgs.append(['CAP=%d' % c] + (['VOIDP'] if void else []))
    # the other payload mode last: shared template text breaks both
    cfgs.append(['CAP=4'] + ([] if void else ['VOIDP']))
    return 'plan_step_model.cpp', cfgs


def fam_serial(v):
    return 'serial_model.cpp', [[]]


def fam_serial_big(v):
    return 'serial_big_model.cpp', [[]]


def fam_serial_then_stream(v):
    return 'serial_model.cpp', [[]]


def fam_inject_log(v):
    return 'inject_log_model.cpp', [[], ['PEER', 'VERBOSE'], ['VERBOSE'], ['SPARSE_HEAD']]


FAMILIES = [(r'^c17\.', fam_memory), (r'^serial\.', fam_serial), (r'^structure\.(S_inj|S_empty)\.', fam_inject_log), (r'^plans\.', fam_planstep), (r'^c10\.', fam_plan), (r'^(root|structure|control|wrappers|sparse)\.', fam_machine), (r'^c20\.bitarray\.', fam_bitarray), (r'^c13\.', fam_bitstream), (r'^c20\.(dynamic|static)\.', fam_dynarray)]


def family(unit):
    for pat, f in FAMILIES:
        if re.search(pat, unit):
            return f
    return None
